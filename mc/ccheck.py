"""Shared machinery of C09 (uper) and C10 (oer): generated C code against the
Python codec.

Per work unit (one ASN.1 module text holding ~30-60 top-level types):

 1. the Python codec compiles the module (the model);
 2. asn1tools.source.c.generate is asked for C; rejected types are bisected
    out (any exception counts as a rejection);
 3. the generated source must compile with gcc -std=c99 -Wall -Wextra -c;
    types whose code does not compile are bisected out (violation);
 4. the remaining types are built into the sanitized driver (cdriver) and for
    every type: every value of the finite domain is encoded by the model and
    replayed on the C code (encode at exact size, at every smaller size,
    decode, <= E edits of the encoding), then every input of <= 2 bytes;
 5. OER: V1 decoder on V2 bytes.
"""

import os
import sys
import copy
import shutil
import tempfile
from dataclasses import replace

from . import impl, budget, cheader, cdriver, cvalue, calpha, space
from .runner import Result, new_failure
from .terms import (Leaf, Seq, Cho, Of, Ref, Tag, M, Grp, Rng, all_members, render_type, subterms, resolve)
from .values import dom
from .casefmt import (valrepr, errclass, case_fields, rebuild_case, referenced, leafkeys,
                      attribute_to_leaf_failures)
from . import shrink as shrinker

asn1tools = impl.asn1tools
from asn1tools.source import c as cgen      # noqa: E402

NS = 'ns'
MAX_RESUMES = 2
EDIT_MAX_LEN = 600          # encodings longer than this are not edited
DEPTH2_MAX_LEN = 6          # thorough: two edits on encodings up to this length
BUDGET = 400000


class Cfg:
    def __init__(self, prop, codec):
        self.prop = prop
        self.codec = codec


_TIER = ['quick']


def set_tier(tier):
    _TIER[0] = tier
    from . import values
    values.set_tier(tier)


def value_cap():
    return 96 if _TIER[0] == 'thorough' else 40


# ---------------------------------------------------------------------------
# generation

def _modname_of(unit, name):
    return (unit.extra or {}).get('modules', {}).get(name, 'M')


def _needed(unit, names):
    """Type names that must stay in the module when only `names` (tops) are kept."""
    keep = set(names)
    for n in names:
        keep.update(referenced(unit.env[n], unit.env))
    return keep


def pruned_dict(parsed, unit, names):
    d = copy.deepcopy(parsed)
    keep = _needed(unit, names)
    for modname in list(d):
        types = d[modname]['types']
        for n in list(types):
            if n in unit.env and n not in keep:
                del types[n]
    # drop imports of pruned symbols
    for modname in d:
        imps = d[modname].get('imports') or {}
        for frm in list(imps):
            imps[frm] = [s for s in imps[frm] if s in keep or s not in unit.env]
            if not imps[frm]:
                del imps[frm]
    return d


class NotAProgram(Exception):
    """The Python codec itself rejects the module: not a program of the property."""


def generate(parsed, unit, names, codec):
    """-> (header text, source text).  Raises NotAProgram when the Python
    compiler rejects the pruned module; any other exception is the generator's."""
    d = pruned_dict(parsed, unit, names)
    try:
        comp = asn1tools.compile_dict(d, codec)
    except RecursionError:
        raise
    except Exception as e:
        raise NotAProgram(errclass(e))
    h, s, _, _ = cgen.generate(comp, codec, NS, 'gen.h', 'gen.c', 'gen_fuzzer.c')
    return h, s


def bisect(indices, test, singles_first=False):
    """test(list) -> None when the whole list passes, else an error object.
    Returns {index: error} for the minimal culprits (assumes monotonicity)."""
    bad = {}

    def rec(ix):
        err = test(ix)
        if err is None:
            return
        if len(ix) == 1:
            bad[ix[0]] = err
            return
        h = len(ix) // 2
        rec(ix[:h])
        rec(ix[h:])

    if singles_first:
        for i in indices:
            rec([i])
    elif indices:
        rec(list(indices))
    return bad


# ---------------------------------------------------------------------------
# the battery for one module

class ModuleRun:
    def __init__(self, cfg, unit, res, workdir, sanitize=True):
        self.cfg = cfg
        self.unit = unit
        self.res = res
        self.workdir = workdir
        self.sanitize = sanitize
        self.drv = None
        self.failures = []

    def fail(self, kind, name, term, lab, v, detail, **kw):
        u = self.unit
        res = self.res
        res.outcome(kind)
        sig = '|'.join([kind, self.cfg.codec, sig_class(lab, term, u.env, self.cfg.codec), sig_detail(kind, detail)])
        self.failures.append(new_failure(
            self.cfg.prop, kind, sig, codec=self.cfg.codec, numeric=False, detail=str(detail)[:300],
            label=lab, layer='L0' if lab.startswith(('L0:', 'X0:')) else lab.split(':')[0],
            size=len(render_type(term, u.env)) + (len(valrepr(v)) if v is not None else 0) +
            (len(kw.get('input') or '') // 2),
            module=_modname_of(u, name), unit_label=u.label,
            leafkeys=None if (v is None or lab.startswith(('L0:', 'X0:'))) else leafkeys(term, v, u.env),
            **dict(case_fields(u, name, term, v), **kw)))


C_KEYWORDS = {'auto', 'break', 'case', 'char', 'const', 'continue', 'default', 'do', 'double', 'else', 'enum',
              'extern', 'float', 'for', 'goto', 'if', 'inline', 'int', 'long', 'register', 'restrict', 'return',
              'short', 'signed', 'sizeof', 'static', 'struct', 'switch', 'typedef', 'union', 'unsigned', 'void',
              'volatile', 'while', 'bool', 'true', 'false'}


def exotic(term, env, codec, _seen=None):
    """Constructs at or beyond the edge of the documented subset that occur in a
    term; used only to group failures by likely root cause before shrinking."""
    out = set()
    _seen = _seen if _seen is not None else set()
    for t in subterms(term):
        if isinstance(t, Ref):
            if t.name not in _seen and t.name in env:
                _seen.add(t.name)
                out |= exotic(env[t.name], env, codec, _seen)
        elif isinstance(t, Cho):
            if t.adds:
                out.add('cho-adds')
            elif t.ext and codec == 'uper':
                out.add('cho-ext')
        elif isinstance(t, Seq):
            if t.adds and codec == 'uper':
                out.add('seq-adds')
            if t.ext and not t.adds and codec == 'oer':
                out.add('seq-marker')
            if t.root2:
                out.add('seq-root2')
            if t.is_set:
                out.add('set')
            for m in all_members(t):
                if m.name in C_KEYWORDS:
                    out.add('kw-name')
                if m.q == 'D':
                    mt = m.t
                    n = 0
                    while isinstance(mt, (Ref, Tag)) and n < 20:
                        mt = env[mt.name] if isinstance(mt, Ref) else mt.inner
                        n += 1
                    if isinstance(mt, Leaf) and mt.kind not in ('BOOLEAN', 'INTEGER', 'ENUMERATED'):
                        out.add('def:' + leaf_class(mt).split(',')[0])
        elif isinstance(t, Of):
            if t.size is None or t.size.hi() is None or t.size.ext:
                out.add('of-unbounded')
        elif isinstance(t, Leaf):
            k = t.kind
            if k == 'ENUMERATED' and t.enum_adds is not None:
                out.add('enum-adds' if t.enum_adds else 'enum-ext')
            elif k == 'REAL' and (codec == 'uper' or not t.wc):
                out.add('real')
            elif k == 'INTEGER' and (t.rng is None or t.rng.ext or t.rng.lo() is None or t.rng.hi() is None):
                out.add('int-' + leaf_class(t))
            elif k in ('OCTETSTRING', 'BITSTRING') and (t.size is None or t.size.ext or t.size.hi() is None):
                out.add('size-' + leaf_class(t))
            elif k == 'BITSTRING' and t.size.lo() != t.size.hi():
                out.add('bits-var')
            elif k not in ('BOOLEAN', 'INTEGER', 'NULL', 'ENUMERATED', 'OCTETSTRING', 'BITSTRING', 'REAL'):
                out.add('kind-' + k)
    return out


def sig_class(lab, term, env, codec='uper'):
    ex = exotic(term, env, codec)
    if ex:
        return '+'.join(sorted(ex))
    parts = lab.split(':')
    layer = parts[0]
    if layer in ('L0', 'X0'):
        return layer + ':' + leaf_class(term)
    if layer in ('L0c', 'X0c'):
        return '%s:%s:%s' % (layer, parts[1], leaf_class_of_label(term, env))
    if layer in ('Lsp', 'Xadd', 'Xrec', 'Lref', 'X', 'Xref'):
        return ':'.join(parts[:3])
    return layer + ':' + type(term).__name__ + ('+ext' if getattr(term, 'ext', False) else '')


def _cwidth(lo, hi):
    for w in (8, 16, 32, 64):
        if lo >= 0 and hi < (1 << w):
            return 'u%d' % w
        if lo < 0 and lo >= -(1 << (w - 1)) and hi < (1 << (w - 1)):
            return 'i%d' % w
    return 'big'


def leaf_class(l):
    """A structural class of a leaf, used only to group failures before shrinking."""
    if not isinstance(l, Leaf):
        return type(l).__name__
    k = l.kind
    if k == 'INTEGER':
        if l.rng is None:
            return k + '(unb)'
        if l.rng.ext:
            return k + '(ext)'
        lo, hi = l.rng.lo(), l.rng.hi()
        if lo is None or hi is None:
            return k + '(unb)'
        bits = (hi - lo).bit_length()
        return '%s[%s,b%d%s]' % (k, _cwidth(lo, hi), bits, ',full' if hi - lo + 1 == 1 << bits else '')
    if k == 'ENUMERATED':
        nums = [n for _, n in l.enum]
        k += '[n%d%s]' % (len(l.enum), ',num' if any(n is not None for n in nums) else '')
        if l.enum_adds is not None:
            k += '+ext' if not l.enum_adds else '+adds'
        return k
    if l.size is not None:
        hi = l.size.hi()
        k += '(size-ext)' if l.size.ext else '(size-unb)' if hi is None else \
            ('(fixed' if l.size.lo() == hi else '(var') + (',<128)' if hi < 128 else ',<256)' if hi < 256 else ',>=256)')
    if l.named:
        k += '+named'
    if l.wc:
        k += l.wc
    return k


def leaf_class_of_label(term, env):
    for s in subterms(term):
        if isinstance(s, Leaf) and s.kind != 'BOOLEAN':
            return s.kind
    return 'BOOLEAN'


def sig_detail(kind, detail):
    if kind in ('sanitizer', 'c-compile-error', 'generator-crash', 'value-not-representable', 'header-shape'):
        import re
        d = re.sub(r'ns_[a-z0-9_]+', 'ID', str(detail))
        d = re.sub(r'-?\d+', 'N', d)
        return d[:80]
    return ''


def entry_index(entries, unit, name):
    base = '%s_%s_%s' % (NS, cvalue.snake(_modname_of(unit, name)), cvalue.snake(name))
    for i, (tag, b) in enumerate(entries):
        if b == base:
            return i
    return None


def py_encode(spec, name, pv):
    """Model encoding, or None when the value is not valid for the type."""
    ct = spec.types[name]
    try:
        ct.check_types(pv)
        ct.check_constraints(pv)
    except (asn1tools.EncodeError, asn1tools.ConstraintsError):
        return None
    try:
        enc, _ = budget.run(BUDGET + 200 * _sizeof(pv), ct.encode, pv)
    except budget.BudgetExceeded:
        return None
    except Exception:
        return None
    return bytes(enc)


def _sizeof(v):
    if isinstance(v, (bytes, bytearray, str)):
        return len(v)
    if isinstance(v, (list, tuple)):
        return 1 + sum(_sizeof(x) for x in v)
    if isinstance(v, dict):
        return 1 + sum(_sizeof(x) for x in v.values())
    return 1


def edit_depth(n):
    if n > EDIT_MAX_LEN:
        return 0
    if _TIER[0] == 'thorough' and n <= DEPTH2_MAX_LEN:
        return 2
    return 1


class TypeCtx:
    def __init__(self, run, name, term, lab, ti, root, mapper, spec):
        self.run, self.name, self.term, self.lab = run, name, term, lab
        self.ti, self.root, self.mapper, self.spec = ti, root, mapper, spec
        self.crashes = 0


def strip_defaults(term, v, env):
    """The same abstract value with every DEFAULT member that holds its default omitted."""
    t = cvalue.strip(term, env)
    if isinstance(t, Seq) and isinstance(v, dict):
        out = {}
        for m in all_members(t):
            if m.name not in v:
                continue
            x = strip_defaults(m.t, v[m.name], env)
            if m.q == 'D' and cvalue.veq(cvalue.normalize(m.t, x, env), cvalue.normalize(m.t, m.default, env)):
                continue
            out[m.name] = x
        return out
    if isinstance(t, Cho) and isinstance(v, tuple):
        alt = [m for m in all_members(t) if m.name == v[0]]
        return (v[0], strip_defaults(alt[0].t, v[1], env)) if alt else v
    if isinstance(t, Of) and isinstance(v, list):
        return [strip_defaults(t.elem, x, env) for x in v]
    return v


def check_value(tc, v, depth=None):
    """Replays one value on the C code.  Returns list of (kind, detail, extra)."""
    run, res = tc.run, tc.run.res
    env = run.unit.env
    out = []
    pv = cvalue.python_value(tc.term, v, env)
    expected = py_encode(tc.spec, tc.name, pv)
    if expected is None:
        res.count('values_not_valid')
        return out
    accept = {expected}
    sv = strip_defaults(tc.term, pv, env)
    if not cvalue.veq(sv, pv):
        alt = py_encode(tc.spec, tc.name, sv)
        if alt is not None:
            accept.add(alt)
    res.count('evaluations')
    ehex = expected.hex()[:400]
    try:
        sb = tc.mapper.to_struct(tc.root, tc.term, v)
    except cvalue.MapError as e:
        kind = 'header-shape' if e.what == 'header-shape' else 'value-not-representable'
        out.append((kind, str(e)[:160], {'encoded': ehex}))
        return out
    # phase A: encode (large, exact, every smaller size), decode the model's bytes
    try:
        fields = cdriver.parse_fields(run.drv.cmd('V %d 0 0 %s %s' % (tc.ti, cdriver.hx(sb), cdriver.hx(expected))))
    except cdriver.DriverDied as e:
        res.count('sanitizer_reports')
        tc.crashes += 1
        ph = (e.case or {}).get('phase', '?')
        out.append(('sanitizer', '%s [%s]' % (e.report, ph), {'encoded': ehex, 'phase': ph}))
        return out
    r0, b0 = cdriver.res_hex(fields['enc0'])
    if r0 < 0:
        out.append(('encode-failed', 'returned %d' % r0, {'encoded': ehex}))
    elif b0 not in accept:
        out.append(('encode-mismatch', 'C %s' % b0.hex()[:200], {'encoded': ehex}))
    elif b0 != expected:
        res.outcome('ok:encode-omits-default-where-python-does-not')
    if r0 >= 0:
        r, b = cdriver.res_hex(fields['exact'])
        if r != r0 or b != b0:
            out.append(('encode-exact-size-failed', 'size %d returned %d' % (r0, r), {'encoded': ehex}))
        small = int(fields['small'])
        if small >= 0:
            out.append(('small-buffer-accepted', 'size %d of %d' % (small, r0), {'encoded': ehex}))
    if not out:
        r, sdata = cdriver.res_hex(fields['dec'])
        if r < 0:
            out.append(('decode-failed', 'returned %d' % r, {'encoded': ehex}))
        else:
            try:
                got = tc.mapper.from_struct(tc.root, tc.term, sdata)
            except cvalue.MapError as e:
                got = ('<map-error>', str(e))
            want = cvalue.normalize(tc.term, v, env)
            if not cvalue.veq(got, want):
                out.append(('decode-mismatch', 'C %s' % valrepr(got)[:200], {'encoded': ehex}))
            else:
                res.outcome('ok')
    # phase B: edits of the model's bytes
    d = edit_depth(len(expected)) if depth is None else depth
    start = 1
    resumes = 0
    while d > 0:
        try:
            f = cdriver.parse_fields(run.drv.cmd('V %d %d %d %s %s' % (tc.ti, d, start, cdriver.hx(sb),
                                                                       cdriver.hx(expected))))
        except cdriver.DriverDied as e:
            res.count('sanitizer_reports')
            tc.crashes += 1
            case = e.case or {}
            ph = case.get('phase', '?')
            out.append(('sanitizer', '%s [%s]' % (e.report, ph),
                        {'encoded': ehex, 'input': case.get('input'), 'phase': 'edits'}))
            if resumes >= MAX_RESUMES or 'idx' not in case:
                break
            resumes += 1
            start = case['idx'] + 2
            continue
        t, a = f['edits'].split(',')
        res.count('edit_inputs', int(t))
        res.count('edit_inputs_accepted', int(a))
        if 'bad' in f:
            out.extend(judge_bad(tc, f['bad'], 'edits', expected))
        break
    return out


def judge_bad(tc, bad, phase, expected=None):
    out = []
    for item in bad.split(';'):
        if not item:
            continue
        code, hexs = item.split(':', 1)
        r = check_input(tc, cdriver.unhx(hexs))
        for kind, detail, extra in r:
            extra = dict(extra, phase=phase)
            if expected is not None:
                extra['encoded'] = expected.hex()[:400]
            out.append((kind, detail, extra))
    return out


def check_input(tc, data):
    """decode / re-encode / re-decode one input, judged field by field."""
    run = tc.run
    hexs = data.hex()
    try:
        reply = run.drv.cmd('R %d %s' % (tc.ti, cdriver.hx(data)))
    except cdriver.DriverDied as e:
        run.res.count('sanitizer_reports')
        return [('sanitizer', '%s [%s]' % (e.report, (e.case or {}).get('phase', '?')), {'input': hexs})]
    parts = reply.split(' ')
    r1, s1 = cdriver.res_hex(parts[1])
    r2, e2 = cdriver.res_hex(parts[2])
    r3, s3 = cdriver.res_hex(parts[3])
    if r1 < 0:
        return []
    if r2 < 0:
        return [('reencode-failed', 'decode accepted (%d), encode returned %d' % (r1, r2), {'input': hexs})]
    if r3 < 0:
        return [('redecode-failed', 're-encoded %s, decode returned %d' % (e2.hex()[:60], r3), {'input': hexs})]
    try:
        a = tc.mapper.from_struct(tc.root, tc.term, s1)
        b = tc.mapper.from_struct(tc.root, tc.term, s3)
    except cvalue.MapError as e:
        return [('header-shape', str(e)[:160], {'input': hexs})]
    if not cvalue.veq(a, b):
        return [('redecode-mismatch', 'first %s second %s' % (valrepr(a)[:120], valrepr(b)[:120]), {'input': hexs})]
    run.res.count('bytewise_differences_judged_equal')
    return []


def check_named_bits(tc):
    """The header's named-bit constants of a top-level BIT STRING type designate
    the named bits: a struct holding constant <NAME> encodes like the bit string
    with only that bit set."""
    run, res = tc.run, tc.run.res
    t = cvalue.strip(tc.term, run.unit.env)
    out = []
    if not (isinstance(t, Leaf) and t.kind == 'BITSTRING' and t.named and isinstance(tc.term, Leaf)):
        return out
    n = t.size.lo()
    base = '%s_%s_%s' % (NS, cvalue.snake(_modname_of(run.unit, tc.name)), cvalue.snake(tc.name))
    for name, pos in t.named:
        cname = (base + '_' + cvalue.canonical(name)).upper()
        v = cvalue.int_to_bits(1 << (n - 1 - pos), n)
        expected = py_encode(tc.spec, tc.name, v)
        if expected is None:
            continue
        res.count('named_bit_constants')
        if cname not in tc.mapper.hdr.constants:
            out.append(('named-bit-constant', 'constant %s missing from the header' % cname, {}, v))
            continue
        const = tc.mapper.hdr.constants[cname]
        node = tc.root.fields.get('value')
        buf = bytearray(tc.root.size)
        try:
            tc.mapper._put_int(buf, node.off, node, const, 'named bit constant')
            reply = run.drv.cmd('E %d %d %s' % (tc.ti, len(expected) + 8, cdriver.hx(bytes(buf))))
        except cvalue.MapError as e:
            out.append(('named-bit-constant', str(e)[:120], {}, v))
            continue
        except cdriver.DriverDied as e:
            out.append(('sanitizer', '%s [named-bit]' % e.report, {'phase': 'named-bit'}, v))
            continue
        r, b = cdriver.res_hex(reply.split(' ')[1])
        if r < 0 or b != expected:
            out.append(('named-bit-constant', 'struct value %s = 0x%x encodes to %s, bit %d alone is %s'
                        % (cname, const, b.hex() if r >= 0 else r, pos, expected.hex()),
                        {'encoded': expected.hex()}, v))
            break
    return out


def check_sweep(tc, maxlen=2):
    run, res = tc.run, tc.run.res
    out = []
    start = 0
    resumes = 0
    while True:
        try:
            reply = run.drv.cmd('S %d %d %d' % (tc.ti, maxlen, start))
            f = cdriver.parse_fields(reply)
            t, a = f['swept'].split(',')
            res.count('short_inputs', int(t))
            res.count('short_inputs_accepted', int(a))
            if 'bad' in f:
                out.extend(judge_bad(tc, f['bad'], 'sweep'))
            return out
        except cdriver.DriverDied as e:
            res.count('sanitizer_reports')
            case = e.case or {}
            out.append(('sanitizer', '%s [%s]' % (e.report, case.get('phase', '?')),
                        {'input': case.get('input'), 'phase': 'sweep'}))
            if resumes >= MAX_RESUMES or 'idx' not in case:
                return out
            resumes += 1
            start = case['idx'] + 1


# ---------------------------------------------------------------------------
# OER: V1 decoder on V2 bytes

V2_ADDS = [
    ('b', Leaf('BOOLEAN')),
    ('o', Leaf('OCTETSTRING', size=Rng(0, 140))),
]


def v2_variants(term):
    """[(label, V2 term, path)] one new trailing addition at one extensible
    SEQUENCE node reachable without crossing a reference."""
    out = []

    def rec(t, rebuild, path):
        if isinstance(t, Seq) and t.ext and not t.root2:
            for lab, at in V2_ADDS:
                t2 = replace(t, adds=t.adds + (M('zz', at, 'O'),))
                out.append((lab, rebuild(t2), path))
        if isinstance(t, Seq):
            for m in all_members(t):
                def rb(x, m=m, t=t, rebuild=rebuild):
                    return rebuild(shrinker._seq_replace(t, m.name, replace(m, t=x)))
                rec(m.t, rb, path + (m.name,))
        elif isinstance(t, Cho):
            for m in all_members(t):
                def rb(x, m=m, t=t, rebuild=rebuild):
                    root = tuple(replace(y, t=x) if y.name == m.name else y for y in t.root)
                    return rebuild(replace(t, root=root))
                if m in t.root:
                    rec(m.t, rb, path + (m.name,))
        elif isinstance(t, Of):
            rec(t.elem, lambda x, t=t, rebuild=rebuild: rebuild(replace(t, elem=x)), path + ('[]',))
        elif isinstance(t, Tag):
            rec(t.inner, lambda x, t=t, rebuild=rebuild: rebuild(replace(t, inner=x)), path)

    rec(term, lambda x: x, ())
    return out


def project(term2, v, env):
    """Remove the member 'zz' everywhere."""
    t = cvalue.strip(term2, env) if not isinstance(term2, (Seq, Cho, Of)) else term2
    if isinstance(t, Seq) and isinstance(v, dict):
        byname = {m.name: m for m in all_members(t)}
        return {k: project(byname[k].t, x, env) for k, x in v.items() if k != 'zz'}
    if isinstance(t, Cho) and isinstance(v, tuple):
        alt = [m for m in all_members(t) if m.name == v[0]]
        return (v[0], project(alt[0].t, v[1], env)) if alt else v
    if isinstance(t, Of) and isinstance(v, list):
        return [project(t.elem, x, env) for x in v]
    return v


def has_zz(v):
    if isinstance(v, dict):
        return 'zz' in v or any(has_zz(x) for x in v.values())
    if isinstance(v, tuple) and len(v) == 2 and isinstance(v[0], str):
        return has_zz(v[1])
    if isinstance(v, list):
        return any(has_zz(x) for x in v)
    return False


def check_v2(run, tcs):
    """tcs: [TypeCtx] of the module.  Builds one V2 module for the Python model."""
    cfg, res, unit = run.cfg, run.res, run.unit
    tops = []
    meta = []
    for tc in tcs:
        if tc.lab.startswith('X'):
            continue
        for lab, t2, path in v2_variants(tc.term):
            tops.append((t2, 'v2'))
            meta.append((tc, lab, t2))
    if not tops:
        return
    helpers = {n: t for n, t in unit.env.items() if n not in {x[0] for x in unit.tops}}
    if any(m != 'M' for m in (unit.extra or {}).get('modules', {}).values()):
        return          # cross-module unit: V2 pairs are covered by the single-module units
    u2 = space.make_unit('v2', tops, helpers=helpers, tags=unit.tags)
    try:
        spec2 = asn1tools.compile_dict(asn1tools.parse_string(u2.spec), cfg.codec)
    except Exception as e:
        res.outcome('v2-model-rejected:' + errclass(e)[:40])
        return
    reported = set()
    for (tc, lab, t2src), (name2, t2, _) in zip(meta, u2.tops):
        vals = dom(t2, u2.env, big=False, k=2, depth=2, cap=value_cap()) or []
        res.count('v2_pairs')
        v2_failed = False
        for v in vals:
            if v2_failed:
                res.count('v2_values_skipped_after_failure')
                break
            if not has_zz(v):
                continue
            pv = cvalue.python_value(t2, v, u2.env)
            enc = py_encode(spec2, name2, pv)
            if enc is None:
                continue
            res.count('v2_evaluations')
            r = check_v2_value(tc, t2, v, enc, u2.env)
            if r:
                v2_failed = True
            for kind, detail, extra in r[:1]:
                if (tc.name, kind) in reported:
                    res.count('failures_not_repeated_per_type')
                    continue
                reported.add((tc.name, kind))
                extra = dict(extra, v2_term=render_type(t2, u2.env), v2_value=valrepr(v)[:400])
                run.fail(kind, tc.name, tc.term, tc.lab, project(t2, v, u2.env), detail, **extra)


def check_v2_value(tc, t2, v, enc, env2):
    run = tc.run
    try:
        reply = run.drv.cmd('D %d 165 %s' % (tc.ti, cdriver.hx(enc)))
    except cdriver.DriverDied as e:
        run.res.count('sanitizer_reports')
        return [('sanitizer', '%s [v2-decode]' % e.report, {'input': enc.hex(), 'phase': 'v2'})]
    r, sdata = cdriver.res_hex(reply.split(' ')[1])
    if r < 0:
        return [('v2-decode-failed', 'returned %d' % r, {'input': enc.hex(), 'phase': 'v2'})]
    want = cvalue.normalize(tc.term, project(t2, v, env2), run.unit.env)
    try:
        got = tc.mapper.from_struct(tc.root, tc.term, sdata)
    except cvalue.MapError as e:
        got = ('<map-error>', str(e))
    if not cvalue.veq(got, want):
        return [('v2-decode-mismatch', 'C %s' % valrepr(got)[:200], {'input': enc.hex(), 'phase': 'v2'})]
    if r != len(enc):
        return [('v2-not-consumed', 'consumed %d of %d' % (r, len(enc)), {'input': enc.hex(), 'phase': 'v2'})]
    run.res.outcome('v2-ok')
    return []


# ---------------------------------------------------------------------------
# unit of work

class Mode:
    """What to replay: values None = the whole domain; inputs = extra raw inputs."""

    def __init__(self, values=None, sweep=True, v2=True, inputs=(), edits=True, only=None):
        self.values, self.sweep, self.v2, self.inputs, self.edits = values, sweep, v2, inputs, edits
        self.only = only          # replay a single type of the unit
        self.named_bits = False
        self.compile_only = False


def work(cfg, unit, mode=None, sanitize=True):
    res = Result()
    mode = mode or Mode()
    workdir = tempfile.mkdtemp(prefix='verif-%s-' % cfg.prop.lower())
    run = ModuleRun(cfg, unit, res, workdir, sanitize)
    try:
        _work(cfg, unit, run, mode)
    finally:
        if run.drv is not None:
            run.drv.close()
        shutil.rmtree(workdir, ignore_errors=True)
    res.failures = run.failures
    return res


def _work(cfg, unit, run, mode):
    res = run.res
    codec = cfg.codec
    names = [n for n, _, _ in unit.tops]
    res.count('modules')
    res.count('types', len(names))
    for n, t, lab in unit.tops:
        res.states.add(hash((codec, unit.tags, render_type(t, unit.env), lab.split(':')[0])))
    # 1. the model
    compiled = impl.compile_tops(unit, [codec])[(False, codec)]
    try:
        parsed = asn1tools.parse_string(unit.spec)
    except Exception as e:
        res.outcome('parse-rejected')
        return
    live = []
    for i, c in enumerate(compiled):
        if isinstance(c, BaseException):
            res.count('types_not_compiled_by_python')
            res.outcome('python-compile-rejected:' + errclass(c)[:50])
        else:
            live.append(i)
    # 2. the generator
    gen_cache = {}

    def gen_test(ix):
        try:
            gen_cache[tuple(ix)] = generate(parsed, unit, [names[i] for i in ix], codec)
            return None
        except NotAProgram as e:
            return e
        except RecursionError as e:
            return e
        except Exception as e:
            return e

    expect_reject = (unit.extra or {}).get('expect') == 'reject'
    rejected = bisect(live, gen_test, singles_first=expect_reject)
    for i, e in sorted(rejected.items()):
        n, t, lab = unit.tops[i]
        if isinstance(e, NotAProgram):
            res.count('types_not_compiled_by_python')
            res.outcome('python-compile-rejected:' + str(e)[:50])
        else:
            res.count('types_rejected_by_generator')
            if isinstance(e, asn1tools.Error):
                res.outcome('rejected:Error:' + leaf_class_of_label(t, unit.env))
            else:
                res.count('types_rejected_with_foreign_exception')
                res.outcome('rejected-foreign:' + type(e).__name__)
    accepted = [i for i in live if i not in rejected]
    res.count('types_accepted_by_generator', len(accepted))
    if not accepted:
        return
    key = tuple(accepted)
    if key not in gen_cache:
        err = gen_test(accepted)
        if err is not None:
            # acceptance is not independent per type: fall back to one module per type
            for i in accepted:
                _work_sub(cfg, unit, run, [i], parsed, compiled, mode)
            return
    _work_sub(cfg, unit, run, accepted, parsed, compiled, mode, gen_cache[key])


def _work_sub(cfg, unit, run, accepted, parsed, compiled, mode, gen=None):
    res = run.res
    codec = cfg.codec
    names = [n for n, _, _ in unit.tops]
    if gen is None:
        try:
            gen = generate(parsed, unit, [names[i] for i in accepted], codec)
        except Exception:
            return
    res.count('modules_generated')
    # 3. gcc -std=c99
    warn_seen = set()

    def gcc_test(ix):
        try:
            h, s = gen if ix == accepted else generate(parsed, unit, [names[i] for i in ix], codec)
        except Exception as e:
            return None
        ok, diags, raw = cdriver.gcc_check(run.workdir, h, s)
        res.count('gcc_compilations')
        if ok:
            for w in diags:
                warn_seen.add(w)
            return None
        return [d for d in diags if d.startswith('error')][:3] or ['error: (no diagnostic)']

    bad = bisect(accepted, gcc_test)
    for i, diags in sorted(bad.items()):
        n, t, lab = unit.tops[i]
        run.fail('c-compile-error', n, t, lab, None, diags[0])
    for w in sorted(warn_seen):
        res.outcome('gcc-' + w[:90])
    good = [i for i in accepted if i not in bad]
    if not good:
        return
    if bad:
        try:
            gen = generate(parsed, unit, [names[i] for i in good], codec)
        except Exception:
            return
        ok, diags, raw = cdriver.gcc_check(run.workdir, gen[0], gen[1])
        if not ok:
            for i in good:
                n, t, lab = unit.tops[i]
                run.fail('c-compile-error', n, t, lab, None, 'only in combination: ' + (diags or ['?'])[0])
            return
    res.count('modules_compiled')
    res.count('types_compiled', len(good))
    if mode.compile_only:
        return
    # 4. sanitized driver
    try:
        hdr = cheader.parse_header(gen[0])
    except cheader.HeaderError as e:
        for i in good[:1]:
            n, t, lab = unit.tops[i]
            run.fail('header-shape', n, t, lab, None, str(e)[:160])
        return
    try:
        exe, hdr, entries = cdriver.build(run.workdir, gen[0], gen[1], hdr, sanitize=run.sanitize)
    except cdriver.BuildError as e:
        n, t, lab = unit.tops[good[0]]
        run.fail('c-compile-error', n, t, lab, None, 'clang: ' + (cdriver.normalize_diag(e.text) or [e.text[:100]])[0])
        return
    if run.drv is not None:
        run.drv.close()
    run.drv = cdriver.Driver(exe, run.workdir)
    roots = cheader.bind_layout(hdr, entries, run.drv.rows)
    mapper = cvalue.Mapper(hdr, unit.env, codec)
    tcs = []
    for i in good:
        n, t, lab = unit.tops[i]
        ti = entry_index(entries, unit, n)
        if ti is None:
            run.fail('header-shape', n, t, lab, None, 'no struct/encode/decode for type %s in the header' % n)
            continue
        spec, tname = compiled[i]
        tc = TypeCtx(run, n, t, lab, ti, roots[ti], mapper, spec)
        if mode.only is not None and n != mode.only:
            continue
        tcs.append(tc)
        check_type(tc, mode)
    if mode.v2 and codec == 'oer':
        check_v2(run, tcs)
    try:
        ne, nd = run.drv.counters()
        res.count('sanitizer_runs', ne + nd)
    except cdriver.DriverDied:
        pass


def check_type(tc, mode):
    run, res = tc.run, tc.run.res
    unit = run.unit
    sweep = mode.sweep
    if mode.values is not None:
        values = list(mode.values)
    else:
        values = dom(tc.term, unit.env, big=False, k=2, depth=2, cap=value_cap())
    if not values:
        res.count('types_without_values')
        values = []
    res.count('values', len(values))
    res.count('types_replayed')
    if len(res.samples) < 2 and values:
        res.samples.append({'type': render_type(tc.term, unit.env)[:200], 'codec': run.cfg.codec,
                            'value': valrepr(values[len(values) // 2])[:120], 'label': tc.lab})
    seen = set()
    for v in values:
        for kind, detail, extra in check_value(tc, v, None if mode.edits else 0):
            key = (kind, detail if kind == 'sanitizer' else '')
            if key in seen:
                res.count('failures_not_repeated_per_type')
                continue
            seen.add(key)
            run.fail(kind, tc.name, tc.term, tc.lab, v, detail, **extra)
        if tc.crashes > 4:
            res.count('types_cut_after_crashes')
            break
    if mode.values is None or mode.named_bits:
        for kind, detail, extra, v in check_named_bits(tc):
            run.fail(kind, tc.name, tc.term, tc.lab, v, detail, **extra)
    for data in mode.inputs:
        for kind, detail, extra in check_input(tc, data):
            run.fail(kind, tc.name, tc.term, tc.lab, None, detail, **extra)
    if sweep and tc.crashes <= 4:
        for kind, detail, extra in check_sweep(tc):
            key = (kind, detail if kind == 'sanitizer' else '')
            if key in seen:
                res.count('failures_not_repeated_per_type')
                continue
            seen.add(key)
            run.fail(kind, tc.name, tc.term, tc.lab, None, detail, **extra)


# ---------------------------------------------------------------------------
# shrink / replay

def mode_for(failure, v, only=None):
    kind = failure['kind']
    inp = failure.get('input')
    if kind == 'c-compile-error':
        m = Mode(values=[], sweep=False, v2=False, only=only)
        m.compile_only = True
        return m
    if kind == 'named-bit-constant':
        m = Mode(values=[], sweep=False, v2=False, only=only)
        m.named_bits = True
        return m
    if kind.startswith('v2-') or failure.get('phase') == 'v2':
        return Mode(values=[], sweep=False, v2=True, only=only)
    if inp is not None:
        return Mode(values=[], sweep=False, v2=False, inputs=[bytes.fromhex(inp)], only=only)
    if v is None:
        return Mode(values=[], sweep=kind not in ('c-compile-error', 'header-shape'), v2=False, only=only)
    return Mode(values=[v], sweep=False, v2=False, edits=(failure.get('phase') == 'edits'), only=only)


def run_case(cfg, failure, unit, name, term, v, only=None):
    """Re-run one case on a (single-type) unit.  -> None | (kind, detail, enc)."""
    kind = failure['kind']
    if not unit.extra:
        unit.extra = {'expect': 'accept', 'modules': {n: 'M' for n in unit.env}}
    res = work(cfg, unit, mode_for(failure, v, only), sanitize=(kind == 'sanitizer' or not FAST_SHRINK[0]))
    for f in res.failures:
        if f['kind'] == kind and f['type'] == name:
            return (f['kind'], f['detail'], bytes.fromhex(f['encoded']) if f.get('encoded') else None)
    return None


def run_in_original_unit(cfg, failure):
    """For cases that only fail inside their original module (cross-module
    references): re-run in the unit named by unit_label."""
    tier = failure.get('tier') or _TIER[0]
    for tr in (tier, 'thorough', 'quick'):
        for u in calpha.units(cfg.codec, tr):
            if u.label == failure.get('unit_label'):
                from .casefmt import parse_value
                import pickle, base64
                env, tags, ei, name, term, v = pickle.loads(base64.b64decode(failure['blob']))
                return run_case(cfg, failure, u, failure['orig_type'], term, v, only=failure['orig_type'])
    return None


# ---------------------------------------------------------------------------
# property-module plumbing

def assumptions(codec):
    a = [
        'The model is the Python %s codec of the same tree (the property names it); the C code is compared with it, '
        'not with the standard.' % codec,
        'Any exception raised by the generator counts as a rejection (asn1tools.Error, RecursionError for recursive '
        'types, and foreign exception classes, which are counted separately in distinct_outcomes).',
        'gcc -std=c99 -Wall -Wextra -c errors are violations; warnings are recorded in distinct_outcomes only.',
        'Value domains are the boundary sets of mc.values.dom with lengths <= 300 (big=False); composite values are '
        'the full product when it has <= cap elements, else all <= 2-component deviations from the base value.',
        'Inside constructors (L1/L2) members come from a reduced alphabet; the full leaf alphabet is tied to the '
        'containers by the L0c layer (every leaf in every container position).',
        'On inputs that are not encodings of a value the only demands are: no sanitizer report, and an accepted '
        'input re-encodes and re-decodes to a struct that is equal field by field (padding, absent OPTIONAL members '
        'and inactive union arms ignored).  That the C decoder rejects what the Python decoder rejects, or that an '
        'accepted INTEGER lies inside its range, is NOT asserted (the property does not state it).',
        'Unasserted: the number of bytes a successful decode reports (only V1-on-V2 decodes must consume everything).',
        'A DEFAULT member is compared as "holds the default" when the value omits it; the struct cannot tell an '
        'omitted DEFAULT from an explicit one, and the Python encoder omits both.',
        'Struct layouts come from the C compiler (offsetof/sizeof table compiled into the driver); names come from '
        'the generated header parsed by pycparser.',
        'Edit sweeps are skipped for encodings longer than %d bytes; two-edit sweeps (thorough) cover encodings '
        'of <= %d bytes.' % (EDIT_MAX_LEN, DEPTH2_MAX_LEN),
        'After more than 4 sanitizer reports on one type the remaining values of that type are skipped (counted in '
        'types_cut_after_crashes).',
    ]
    if codec == 'oer':
        a.append('V2 = V1 plus one OPTIONAL trailing addition (BOOLEAN or OCTET STRING (SIZE(0..140))) at one '
                 'extensible SEQUENCE node reachable without crossing a type reference; V2 bytes come from the '
                 'Python OER encoder.')
    return a


def bounds(codec, tier):
    th = tier == 'thorough'
    return {'tier': tier, 'codec': codec,
            'layers': 'L0, L0c, Lref, cross-module, L1(W=%d,K=2), L2, Lsp, X0/X0c/Xref/Xadd/Xrec' % (3 if th else 2),
            'value_product_cap': 96 if th else 40, 'value_deviation_k': 2, 'max_length_in_values': 300,
            'destination_sizes': 'every size 0..len-1 plus len', 'short_inputs': 'all byte strings of length <= 2',
            'edits': '<= 1 edit of every valid encoding' + ('; <= 2 edits when len <= %d' % DEPTH2_MAX_LEN if th else ''),
            'edit_alphabet': 'substitute {00,01,7f,80,ff,b^01,b^80}, delete, insert {00,ff}, truncate'}


def units(codec, tier):
    us = calpha.units(codec, tier)
    flt = os.environ.get('VERIF_C_UNITS')      # development aid: comma-separated label prefixes
    if flt:
        us = [u for u in us if any(u.label.startswith(p) for p in flt.split(','))]
    return us


def coverage(codec, stats, tier):
    g = stats.get
    traces = g('evaluations', 0) + g('edit_inputs', 0) + g('short_inputs', 0) + g('v2_evaluations', 0)
    return {
        'states': g('types', 0) + g('values', 0),
        'transitions': g('sanitizer_runs', 0),
        'traces_validated_against_impl': traces,
        'evaluations': g('evaluations', 0),
        'distinct_nontrivial': g('evaluations', 0) + g('edit_inputs_accepted', 0) + g('short_inputs_accepted', 0)
        + g('v2_evaluations', 0),
        'modules': {'generated': g('modules_generated', 0), 'compiled_gcc_c99': g('modules_compiled', 0),
                    'units': g('modules', 0)},
        'types': {'enumerated': g('types', 0), 'rejected_by_generator': g('types_rejected_by_generator', 0),
                  'rejected_with_foreign_exception': g('types_rejected_with_foreign_exception', 0),
                  'accepted_by_generator': g('types_accepted_by_generator', 0),
                  'compiled_and_replayed': g('types_replayed', 0),
                  'not_compiled_by_python': g('types_not_compiled_by_python', 0)},
        'sanitizer_runs': g('sanitizer_runs', 0),
        'sanitizer_reports': g('sanitizer_reports', 0),
        'rule': 'states = type terms + values enumerated; transitions = executions of a generated encode/decode '
                'function under ASan+UBSan (counted by the driver; counts of crashed driver processes are lost); '
                'traces = (type, value) pairs replayed on the C code (encode at every size, decode) + edited '
                'encodings + short inputs + V2 encodings decoded by the V1 C decoder; a case is non-trivial when '
                'the value was valid for the model and encoded, or the input was accepted by the C decoder',
        'exhaustive': True,
    }


SHRINK_TESTS = 14
FAST_SHRINK = [False]     # shrink candidates of non-sanitizer kinds on an unsanitized gcc -O0 build


def shrink(cfg, failure):
    """Greedy shrink with a small test budget (every test is a C build)."""
    n = [0]

    def rc(f, unit, name, term, v):
        n[0] += 1
        if n[0] > SHRINK_TESTS:
            return None
        return run_case(cfg, f, unit, name, term, v)

    failure = dict(failure, orig_type=failure['type'], tier=_TIER[0])
    FAST_SHRINK[0] = True
    try:
        unit, name, term, v = rebuild_case(failure)
        first = run_case(cfg, failure, unit, name, term, v)
    except Exception:
        first = None
    finally:
        FAST_SHRINK[0] = False
    if first is None or first[0] != failure['kind']:
        out = dict(failure)
        out['unshrunk'] = True
        try:
            unit, name, term, v = rebuild_case(failure)
            out['_term'], out['_value'], out['_env'] = term, v, unit.env
        except Exception:
            pass
        return out
    if failure.get('layer') == 'L0':
        out = dict(failure)
        out['spec'] = unit.spec
        out['type'] = name
        out['detail'] = first[1]
        out['_term'], out['_value'], out['_env'] = term, v, unit.env
        return out
    FAST_SHRINK[0] = True
    try:
        if v is not None:
            return shrinker.shrink_failure(failure, rc)
        # type-level case (sweep / raw input / compile): shrink the term, carrying a dummy value along
        vals = dom(term, unit.env, big=False, k=1, depth=1, cap=4) or []
        if not vals:
            out = dict(failure)
            out['spec'], out['type'] = unit.spec, name
            out['_term'], out['_value'], out['_env'] = term, None, unit.env
            return out
        carrier = dict(failure)
        carrier.update(case_fields(unit, name, term, vals[0]))

        def rc_type(f, u, nm, t2, v2):
            return rc(f, u, nm, t2, None)

        out = shrinker.shrink_failure(carrier, rc_type)
        out['value'] = 'None'
        out['_value'] = None
        u2, _, t2, _ = rebuild_case(out)
        out.update({k: x for k, x in case_fields(u2, 'T0', t2, None).items() if k in ('blob', 'value')})
        return out
    finally:
        FAST_SHRINK[0] = False


def replay(cfg, case):
    if case.get('tier'):
        set_tier(case['tier'])
    if case.get('unshrunk'):
        r = run_in_original_unit(cfg, case)
    else:
        unit, name, term, v = rebuild_case(case)
        r = run_case(cfg, case, unit, name, term, v)
    if r is None:
        return None
    return {'kind': r[0], 'detail': r[1], 'encoded': r[2].hex() if r[2] is not None else None}


def attribute(failures):
    return attribute_to_leaf_failures(failures, extra_key=lambda f: (f.get('codec'),))
