"""Known-finding predicates for C17 (narrow: they look at which call parameters differ between the
call that stored the returned object and the call that received it, or at what exactly was damaged)."""

OPTIONS = {'numeric_enums', 'any_defined_by_choices'}


def c17_key_omits_options(f):
    """A call received the Specification stored by an earlier call that differs from it ONLY in
    numeric_enums and/or any_defined_by_choices (same files, same contents, same codec)."""
    d = f.get('stale_diff')
    return f.get('kind') == 'history-divergence' and bool(d) and set(d) <= OPTIONS


def c17_file_boundary_collision(f):
    """A call received the Specification stored for a DIFFERENT file list whose plain concatenation
    is byte-identical (the files are split at a different place); the options may differ as well only
    through the separately listed option defect."""
    d = f.get('stale_diff')
    return (f.get('kind') == 'history-divergence' and bool(d) and 'files' in d
            and f.get('same_concatenation') is True and set(d) <= OPTIONS | {'files'})


def c17_stored_pickle_not_verified(f):
    """A single substituted byte INSIDE the stored pickle of the Specification (inline blob in cache.db
    or the .val file) - not a truncation, not SQLite metadata - yields a Specification that encodes or
    decodes differently (and is not simply the intact entry of another call)."""
    return (f.get('kind') == 'damage-wrong-codec' and f.get('op') == 'subst'
            and str(f.get('region', '')).startswith('pickle:') and not f.get('returned_other_entry'))
