"""Independent BER tag-length-value parser and serialiser (X.690 clause 8.1).

Nothing here imports asn1tools.  `parse` reads any BER encoding (identifier
octets with high tag numbers, definite short / long and indefinite lengths,
nested constructed nodes) into a tree that remembers *how* it was written
(number of length octets, indefinite form, non-minimal tag octets), so that the
canonical-form obligations of DER can be tested on the tree and so that a tree
can be written back differently (C04's re-serialisations).

    parse(data)        -> Node          (exactly one TLV, all of data consumed)
    parse_all(data)    -> [Node]
    serialise(node)    -> bytes         (honours node.indefinite / node.len_pad /
                                         node.tag_pad; all unset = DER form)
    canonical(node)    -> Node          (same tree, every form flag cleared)
    der_form_problems(node) -> [str]    (empty = only definite minimal lengths,
                                         minimal identifier octets)
    string_form_problems(node) -> [str] (empty = every UNIVERSAL string-like
                                         node is primitive, every UNIVERSAL
                                         node has the P/C bit its type demands)
"""

UNIVERSAL, APPLICATION, CONTEXT, PRIVATE = 0, 1, 2, 3
CLASS_NAMES = ('UNIVERSAL', 'APPLICATION', 'CONTEXT', 'PRIVATE')

# UNIVERSAL tag numbers whose DER encoding is primitive / constructed
STRING_TAGS = frozenset([3, 4, 7, 12, 18, 19, 20, 21, 22, 23, 24, 25, 26, 27, 28, 29, 30, 31, 32, 33, 34])
ALWAYS_PRIMITIVE = frozenset([1, 2, 5, 6, 9, 10, 13, 14])
ALWAYS_CONSTRUCTED = frozenset([8, 11, 16, 17])

MAX_DEPTH = 200


class TLVError(ValueError):
    pass


class Node(object):
    __slots__ = ('cls', 'constructed', 'num', 'content', 'children',
                 'indefinite', 'len_octets', 'len_pad', 'tag_octets', 'tag_pad', 'start', 'end')

    def __init__(self, cls, constructed, num, content=None, children=None):
        self.cls = cls
        self.constructed = bool(constructed)
        self.num = num
        self.content = content          # bytes for primitive nodes
        self.children = children        # list of Node for constructed nodes
        self.indefinite = False         # written with the indefinite form
        self.len_octets = None          # as read: total number of length octets
        self.len_pad = 0                # as read / to write: superfluous leading zero length octets
        #                                 (-1: long form used although the short form fits)
        self.tag_octets = None          # as read: number of identifier octets
        self.tag_pad = 0                # superfluous leading 0x80 octets in a high tag number
        self.start = None
        self.end = None

    def tag(self):
        return (self.cls, self.num)

    def __repr__(self):
        t = '%s %d%s' % (CLASS_NAMES[self.cls], self.num, ' C' if self.constructed else '')
        if self.constructed:
            return '<%s [%s]>' % (t, ', '.join(repr(c) for c in self.children))
        return '<%s %s>' % (t, bytes(self.content).hex())

    def __eq__(self, other):
        """Structural equality (form flags are not part of the value)."""
        if not isinstance(other, Node):
            return NotImplemented
        if (self.cls, self.constructed, self.num) != (other.cls, other.constructed, other.num):
            return False
        if self.constructed:
            return self.children == other.children
        return bytes(self.content) == bytes(other.content)

    def __ne__(self, other):
        r = self.__eq__(other)
        return r if r is NotImplemented else not r

    __hash__ = None


# ---------------------------------------------------------------------------
# reading

def _read_identifier(data, off, end):
    if off >= end:
        raise TLVError('no identifier octet at %d' % off)
    b = data[off]
    off += 1
    cls = b >> 6
    constructed = bool(b & 0x20)
    num = b & 0x1f
    pad = 0
    if num == 0x1f:
        num = 0
        first = True
        while True:
            if off >= end:
                raise TLVError('identifier octets run past the end at %d' % off)
            c = data[off]
            off += 1
            if first and c == 0x80:
                pad += 1
                continue
            first = False
            num = (num << 7) | (c & 0x7f)
            if not c & 0x80:
                break
        if num < 31:
            pad = max(pad, 0) + 1000       # high form used for a low number: never minimal
    return cls, constructed, num, pad, off


def _read_length(data, off, end):
    """-> (length | None for indefinite, number of length octets, padding, new offset)"""
    if off >= end:
        raise TLVError('no length octet at %d' % off)
    b = data[off]
    off += 1
    if b < 0x80:
        return b, 1, 0, off
    if b == 0x80:
        return None, 1, 0, off
    if b == 0xff:
        raise TLVError('reserved length octet 0xff at %d' % (off - 1))
    n = b & 0x7f
    if off + n > end:
        raise TLVError('length octets run past the end at %d' % off)
    raw = bytes(data[off:off + n])
    length = int.from_bytes(raw, 'big')
    if n == 0:
        raise TLVError('long form with zero length octets')
    pad = 0
    while pad < n - 1 and raw[pad] == 0:
        pad += 1                     # superfluous leading zero octets (one octet always stays)
    if pad == 0 and length < 128:
        pad = -1                     # long form although the short form fits (81 05, 81 00)
    return length, 1 + n, pad, off + n


def _parse_node(data, off, end, depth):
    if depth > MAX_DEPTH:
        raise TLVError('nesting deeper than %d' % MAX_DEPTH)
    start = off
    cls, constructed, num, tag_pad, off = _read_identifier(data, off, end)
    tag_octets = off - start
    length, len_octets, len_pad, off = _read_length(data, off, end)
    node = Node(cls, constructed, num)
    node.start = start
    node.tag_octets = tag_octets
    node.tag_pad = tag_pad
    node.len_octets = len_octets
    node.len_pad = len_pad
    if length is None:
        if not constructed:
            raise TLVError('indefinite length on a primitive encoding at %d' % start)
        node.indefinite = True
        children = []
        while True:
            if off + 2 > end:
                raise TLVError('no end-of-contents octets for the node at %d' % start)
            if data[off] == 0 and data[off + 1] == 0:
                off += 2
                break
            child, off = _parse_node(data, off, end, depth + 1)
            children.append(child)
        node.children = children
        node.end = off
        return node, off
    if off + length > end:
        raise TLVError('contents of the node at %d run past the end (%d > %d)' % (start, off + length, end))
    cend = off + length
    if constructed:
        children = []
        while off < cend:
            child, off = _parse_node(data, off, cend, depth + 1)
            children.append(child)
        node.children = children
    else:
        node.content = bytes(data[off:cend])
    node.end = cend
    return node, cend


def parse_all(data):
    data = bytes(data)
    out = []
    off = 0
    while off < len(data):
        node, off = _parse_node(data, off, len(data), 0)
        out.append(node)
    return out


def parse(data):
    """Exactly one TLV that uses all of `data`."""
    data = bytes(data)
    node, off = _parse_node(data, 0, len(data), 0)
    if off != len(data):
        raise TLVError('%d trailing octet(s) after the outermost TLV' % (len(data) - off))
    return node


# ---------------------------------------------------------------------------
# writing

def identifier_octets(cls, constructed, num, pad=0):
    first = (cls << 6) | (0x20 if constructed else 0)
    if num < 31 and pad == 0:
        return bytes([first | num])
    groups = [num & 0x7f]
    num >>= 7
    while num:
        groups.append(0x80 | (num & 0x7f))
        num >>= 7
    groups.reverse()
    return bytes([first | 0x1f]) + b'\x80' * (pad % 1000) + bytes(groups)


def length_octets(n, pad=0):
    """Definite length. pad = 0 minimal; pad = -1 long form with one octet even
    when the short form fits; pad = k > 0: k superfluous leading zero octets."""
    if n < 128 and pad == 0:
        return bytes([n])
    body = n.to_bytes(max(1, (n.bit_length() + 7) // 8), 'big')
    if pad > 0:
        body = b'\x00' * pad + body
    if len(body) > 126:
        raise TLVError('length field too long')
    return bytes([0x80 | len(body)]) + body


def serialise(node):
    """Write the tree back.  With every form flag at its default this is the
    distinguished (definite, minimal) form."""
    ident = identifier_octets(node.cls, node.constructed, node.num, node.tag_pad)
    if node.constructed:
        body = b''.join(serialise(c) for c in node.children)
        if node.indefinite:
            return ident + b'\x80' + body + b'\x00\x00'
    else:
        if node.indefinite:
            raise TLVError('a primitive node cannot use the indefinite form')
        body = bytes(node.content)
    return ident + length_octets(len(body), node.len_pad) + body


def canonical(node):
    """A copy with all form flags cleared (definite minimal lengths, minimal tags)."""
    n = Node(node.cls, node.constructed, node.num)
    if node.constructed:
        n.children = [canonical(c) for c in node.children]
    else:
        n.content = bytes(node.content)
    return n


def walk(node, path=()):
    yield path, node
    if node.constructed:
        for i, c in enumerate(node.children):
            yield from walk(c, path + (i,))


# ---------------------------------------------------------------------------
# re-serialisation operators (used by C04; each returns a new tree)

def with_indefinite(node, paths=None):
    """Indefinite form on every constructed node (or only at `paths`)."""
    def rec(n, path):
        m = Node(n.cls, n.constructed, n.num)
        if n.constructed:
            m.children = [rec(c, path + (i,)) for i, c in enumerate(n.children)]
            m.indefinite = paths is None or path in paths
        else:
            m.content = bytes(n.content)
        return m
    return rec(node, ())


def with_padded_lengths(node, pad=1, paths=None):
    def rec(n, path):
        m = Node(n.cls, n.constructed, n.num)
        if n.constructed:
            m.children = [rec(c, path + (i,)) for i, c in enumerate(n.children)]
        else:
            m.content = bytes(n.content)
        if paths is None or path in paths:
            m.len_pad = pad
        return m
    return rec(node, ())


def segmented(node, seg_tag, cut, bitstring=False):
    """A primitive string node rewritten as constructed with two segments that
    carry the UNIVERSAL tag `seg_tag` (4 for every string type except BIT STRING,
    which uses 3 and whose first segment must be a whole number of octets)."""
    if node.constructed:
        raise TLVError('already constructed')
    c = bytes(node.content)
    m = Node(node.cls, True, node.num)
    if bitstring:
        unused, bits = c[0], c[1:]
        cut = max(0, min(cut, len(bits)))
        a = Node(UNIVERSAL, False, seg_tag, content=b'\x00' + bits[:cut])
        b = Node(UNIVERSAL, False, seg_tag, content=bytes([unused]) + bits[cut:])
    else:
        cut = max(0, min(cut, len(c)))
        a = Node(UNIVERSAL, False, seg_tag, content=c[:cut])
        b = Node(UNIVERSAL, False, seg_tag, content=c[cut:])
    m.children = [a, b]
    return m


# ---------------------------------------------------------------------------
# DER form tests on a parsed tree

def der_form_problems(node):
    """Problems with the *form* of a parsed encoding: indefinite lengths,
    non-minimal length octets, non-minimal identifier octets."""
    out = []
    for path, n in walk(node):
        where = 'node %s (%s %d)' % ('.'.join(map(str, path)) or 'root', CLASS_NAMES[n.cls], n.num)
        if n.indefinite:
            out.append('indefinite length at ' + where)
        if n.len_pad:
            out.append('non-minimal length octets at ' + where)
        if n.tag_pad:
            out.append('non-minimal identifier octets at ' + where)
        if n.len_octets is not None and not n.indefinite:
            body = (n.end - n.start) - n.tag_octets - n.len_octets
            if n.len_octets != len(length_octets(body)):
                out.append('length field of %d octets for %d content octets at %s' % (n.len_octets, body, where))
        if n.tag_octets is not None and n.tag_octets != len(identifier_octets(n.cls, n.constructed, n.num)):
            out.append('identifier field of %d octets at %s' % (n.tag_octets, where))
    return out


def only_definite_minimal(node):
    return not der_form_problems(node)


def string_form_problems(node):
    """UNIVERSAL-class nodes must have the P/C bit DER demands for their type:
    string-like types (BIT STRING, OCTET STRING, restricted strings, times)
    primitive, SEQUENCE / SET constructed, the scalar types primitive."""
    out = []
    for path, n in walk(node):
        if n.cls != UNIVERSAL:
            continue
        where = 'node %s (UNIVERSAL %d)' % ('.'.join(map(str, path)) or 'root', n.num)
        if n.num in STRING_TAGS and n.constructed:
            out.append('constructed string encoding at ' + where)
        elif n.num in ALWAYS_PRIMITIVE and n.constructed:
            out.append('constructed encoding of a primitive type at ' + where)
        elif n.num in ALWAYS_CONSTRUCTED and not n.constructed:
            out.append('primitive encoding of a constructed type at ' + where)
        elif n.num == 0:
            out.append('UNIVERSAL 0 (end-of-contents) used as a tag at ' + where)
    return out


def all_strings_primitive(node):
    return not [p for p in string_form_problems(node) if p.startswith('constructed string')]


# ---------------------------------------------------------------------------

def selftest():
    n = 0

    def rt(hexs):
        nonlocal n
        b = bytes.fromhex(hexs)
        t = parse(b)
        assert serialise(t) == b, (hexs, serialise(t).hex())
        n += 1
        return t

    # identifiers
    t = rt('0101ff')
    assert (t.cls, t.constructed, t.num, t.content) == (0, False, 1, b'\xff')
    t = rt('1f1f083139383530343132')          # UNIVERSAL 31 (DATE), high tag number form
    assert (t.cls, t.num, t.tag_octets) == (0, 31, 2)
    t = rt('bf8100020500')                     # [128] constructed
    assert (t.cls, t.constructed, t.num) == (2, True, 128) and t.children[0].num == 5
    t = rt('df7f00')                           # [PRIVATE 127]
    assert (t.cls, t.num) == (3, 127)
    t = rt('7fffff7f00')                       # [APPLICATION 2097151] constructed, empty
    assert (t.cls, t.num, t.children) == (1, 2097151, [])
    assert identifier_octets(CONTEXT, False, 30) == b'\x9e'
    assert identifier_octets(CONTEXT, False, 31) == b'\x9f\x1f'
    assert identifier_octets(CONTEXT, True, 16383) == b'\xbf\xff\x7f'
    assert identifier_octets(CONTEXT, True, 16384) == b'\xbf\x81\x80\x00'
    n += 4
    # lengths
    assert length_octets(0) == b'\x00' and length_octets(127) == b'\x7f'
    assert length_octets(128) == b'\x81\x80' and length_octets(255) == b'\x81\xff'
    assert length_octets(256) == b'\x82\x01\x00' and length_octets(65535) == b'\x82\xff\xff'
    assert length_octets(65536) == b'\x83\x01\x00\x00'
    n += 4
    for ln in (0, 1, 127, 128, 255, 256, 65535, 65536):
        b = b'\x04' + length_octets(ln) + bytes(ln)
        t = parse(b)
        assert t.content == bytes(ln) and not der_form_problems(t)
        assert serialise(t) == b
        n += 1
    # non-minimal forms are read, reported, and written back unchanged
    for hexs, what in [('04810100', 'non-minimal length'), ('0482000100', 'non-minimal length'),
                       ('3080020100' + '0000', 'indefinite'), ('1f0100', 'identifier'), ('9f800500', 'identifier'),
                       ('048100', 'non-minimal length')]:
        b = bytes.fromhex(hexs)
        t = parse(b)
        probs = der_form_problems(t)
        assert probs and any(what in p for p in probs), (hexs, probs)
        assert parse(serialise(canonical(t))) == t
        assert not der_form_problems(parse(serialise(canonical(t))))
        n += 1
    assert serialise(parse(bytes.fromhex('30800201000000'))) == bytes.fromhex('30800201000000')
    assert serialise(parse(bytes.fromhex('0482000100'))) == bytes.fromhex('0482000100')
    # nested, X.690 8.9 style example: SEQUENCE { IA5String "Smith", BOOLEAN TRUE }
    t = rt('300a1605536d6974680101ff')
    assert [c.num for c in t.children] == [22, 1] and t.children[0].content == b'Smith'
    assert not der_form_problems(t) and not string_form_problems(t)
    # constructed string (X.690 8.21.5.4 style): must be reported
    t = parse(bytes.fromhex('3a0904034a6f6e04026573'))
    assert t.constructed and string_form_problems(t)
    t2 = segmented(parse(bytes.fromhex('1a054a6f6e6573')), 4, 3)
    assert serialise(t2) == bytes.fromhex('3a0904034a6f6e04026573')
    n += 2
    t = with_indefinite(parse(bytes.fromhex('300a1605536d6974680101ff')))
    assert serialise(t) == bytes.fromhex('30801605536d6974680101ff0000')
    assert parse(serialise(t)) == parse(bytes.fromhex('300a1605536d6974680101ff'))
    n += 1
    # malformed inputs raise TLVError
    for hexs in ['', '04', '0401', '0485', '30800101ff', '0480', '04ff', '300304010000', '0101ff00', '1f', '1f80']:
        try:
            parse(bytes.fromhex(hexs))
        except TLVError:
            n += 1
        else:
            raise AssertionError('accepted malformed ' + hexs)
    return n
