"""Type-directed labelling of a BER TLV tree (mc/tlv4.py) by the term and value it
encodes: which nodes are strings (segmentable), which are SET values (permutable),
which are explicit-tag wrappers.  Tags are predicted from the term by the X.680
tagging rules (explicit / implicit / automatic) and every prediction is verified
against the actual tree: any disagreement raises LabelMismatch and the caller
falls back to the rewrites that need no type information.  A label is therefore
only ever placed on a node whose tag, form and position agree with the term.

Does not import asn1tools.
"""

from .terms import Leaf, Seq, Cho, Of, Ref, Tag, M, Grp, STRING_KINDS, all_members
from .tagging import UNIVERSAL as UNIV
from . import tlv4

CLS = {'UNIVERSAL': 0, 'APPLICATION': 1, 'CONTEXT': 2, '': 2, 'PRIVATE': 3}
SEGMENTABLE_TIME = ('UTCTime', 'GeneralizedTime')   # [UNIVERSAL 23/24] IMPLICIT VisibleString (X.680 47, 46)


STRING_ENCODING = {
    'IA5String': 'ascii', 'VisibleString': 'ascii', 'NumericString': 'ascii', 'PrintableString': 'ascii',
    'BMPString': 'utf-16-be', 'UniversalString': 'utf-32-be', 'UTF8String': 'utf-8', 'GeneralString': 'latin-1',
    'GraphicString': 'latin-1', 'TeletexString': 'latin-1', 'ObjectDescriptor': 'latin-1',
}


class LabelMismatch(Exception):
    pass


def untagged_choice(t, env):
    n = 0
    while isinstance(t, Ref):
        t = env[t.name]
        n += 1
        if n > 50:
            raise LabelMismatch('reference cycle')
    return isinstance(t, Cho)


def peel(t, env, mode):
    """Strip the Tag / Ref chain.  Returns (explicit wrapper tags outermost first,
    pending implicit tag or None, structural term)."""
    wrappers = []
    pending = None
    n = 0
    while True:
        n += 1
        if n > 60:
            raise LabelMismatch('reference cycle')
        if isinstance(t, Ref):
            t = env[t.name]
        elif isinstance(t, Tag):
            explicit = (t.mode == 'EXPLICIT' or (t.mode == '' and mode == 'EXPLICIT')
                        or untagged_choice(t.inner, env))
            tg = pending or (CLS[t.cls], t.num)
            if explicit:
                wrappers.append(tg)
                pending = None
            else:
                pending = tg
            t = t.inner
        else:
            return wrappers, pending, t


def member_terms(con, mode, scheme):
    """[(member, effective term)] with automatic tags made explicit.
    scheme 0: X.680 order (extension root first, then additions); scheme 1: textual order."""
    ms = all_members(con)
    auto = mode == 'AUTOMATIC' and not any(isinstance(m.t, Tag) for m in ms)
    if not auto:
        return [(m, m.t) for m in ms]
    if scheme == 0 and isinstance(con, Seq):
        order = list(con.root) + list(con.root2)
        for a in con.adds:
            order.extend(a.members if isinstance(a, Grp) else [a])
    else:
        order = ms
    num = {id(m): i for i, m in enumerate(order)}
    return [(m, Tag(num[id(m)], m.t, mode='IMPLICIT')) for m in ms]


def first_tag(t, v, env, mode, scheme):
    wrappers, pending, base = peel(t, env, mode)
    if wrappers:
        return wrappers[0]
    if pending is not None:
        return pending
    if isinstance(base, Leaf):
        return (0, UNIV[base.kind])
    if isinstance(base, (Seq, Of)):
        return (0, 17 if base.is_set else 16)
    if isinstance(base, Cho):
        if not (isinstance(v, tuple) and len(v) == 2):
            raise LabelMismatch('choice value')
        for m, et in member_terms(base, mode, scheme):
            if m.name == v[0]:
                return first_tag(et, v[1], env, mode, scheme)
        raise LabelMismatch('unknown alternative')
    raise LabelMismatch('term')


def label(t, v, node, env, mode, scheme=0, ctx=''):
    wrappers, pending, base = peel(t, env, mode)
    for w in wrappers:
        if not node.cons or node.tag() != w or len(node.kids) != 1:
            raise LabelMismatch('explicit wrapper')
        node.kind = 'explicit-tag'
        node = node.kids[0]
        ctx = ''
    if isinstance(base, Cho):
        if pending is not None:
            raise LabelMismatch('implicit tag on choice')
        if not (isinstance(v, tuple) and len(v) == 2):
            raise LabelMismatch('choice value')
        for m, et in member_terms(base, mode, scheme):
            if m.name == v[0]:
                return label(et, v[1], node, env, mode, scheme)
        raise LabelMismatch('unknown alternative')
    implicit = pending is not None
    sfx = '/implicit' if implicit else ''
    if isinstance(base, Leaf):
        exp = pending or (0, UNIV[base.kind])
        if node.cons or node.tag() != exp:
            raise LabelMismatch('leaf tag')
        k = base.kind
        node.kind = k + sfx
        c = node.content
        if k == 'BOOLEAN':
            if not isinstance(v, bool) or len(c) != 1 or bool(c[0]) != v:
                raise LabelMismatch('boolean contents')
        elif k == 'INTEGER':
            if isinstance(v, bool) or not isinstance(v, int) or not c or int.from_bytes(c, 'big', signed=True) != v:
                raise LabelMismatch('integer contents')
        elif k == 'NULL':
            if c:
                raise LabelMismatch('null contents')
        elif k == 'OCTETSTRING':
            if not isinstance(v, (bytes, bytearray)) or bytes(v) != c:
                raise LabelMismatch('octet string contents')
            node.lab = 'oct'
        elif k in STRING_KINDS:
            if not isinstance(v, str):
                raise LabelMismatch('string value')
            try:
                exp_c = v.encode(STRING_ENCODING[k])
            except UnicodeError:
                raise LabelMismatch('string encoding')
            if exp_c != c:
                raise LabelMismatch('string contents')
            node.lab = 'oct'
        elif k in SEGMENTABLE_TIME:
            import datetime
            if not isinstance(v, datetime.datetime) or not c[:8].isdigit() or not c.isascii():
                raise LabelMismatch('time contents')
            node.lab = 'oct'
        elif k == 'BITSTRING':
            if len(c) < 1 or c[0] > 7 or (len(c) == 1 and c[0]):
                raise LabelMismatch('bit string contents')
            if not (isinstance(v, tuple) and len(v) == 2 and isinstance(v[0], (bytes, bytearray))):
                raise LabelMismatch('bit string value')
            nbits = 8 * (len(c) - 1) - c[0]
            if (nbits > v[1]) if base.named else (nbits != v[1]):
                raise LabelMismatch('bit string length')
            if bytes(v[0])[:nbits // 8] != c[1:1 + nbits // 8]:
                raise LabelMismatch('bit string data')
            node.lab = 'bits'
        return
    if isinstance(base, Of):
        exp = pending or (0, 17 if base.is_set else 16)
        if not node.cons or node.tag() != exp or not isinstance(v, list) or len(v) != len(node.kids):
            raise LabelMismatch('of')
        node.kind = ('SETOF' if base.is_set else 'SEQOF') + sfx
        for x, k in zip(v, node.kids):
            label(base.elem, x, k, env, mode, scheme)
        return
    if isinstance(base, Seq):
        exp = pending or (0, 17 if base.is_set else 16)
        if not node.cons or node.tag() != exp or not isinstance(v, dict):
            raise LabelMismatch('seq')
        present = [(m, et) for m, et in member_terms(base, mode, scheme) if m.name in v]
        if len(present) != len(v):
            raise LabelMismatch('unknown member')
        tags = [first_tag(et, v[m.name], env, mode, scheme) for m, et in present]
        used = [False] * len(present)
        kid_names = []
        for k in node.kids:
            idx = [i for i, tg in enumerate(tags) if tg == k.tag() and not used[i]]
            if not idx or (len(idx) != 1 and base.is_set):
                raise LabelMismatch('member alignment')
            i = idx[0]
            used[i] = True
            m, et = present[i]
            kid_names.append(m.name)
            label(et, v[m.name], k, env, mode, scheme)
        for i, (m, et) in enumerate(present):
            if not used[i] and m.q != 'D':
                raise LabelMismatch('member not encoded')
        addnames = set()
        for a in base.adds:
            addnames.update(m.name for m in (a.members if isinstance(a, Grp) else [a]))
        meta = tuple(nm in addnames for nm in kid_names)
        node.kind = ('SET' if base.is_set else 'SEQ') + sfx + (
            '' if not addnames else '+additions-encoded' if any(meta) else '+additions-absent')
        if base.is_set:
            node.lab = 'set'
            node.meta = meta
        return
    raise LabelMismatch('term')


def _signature(n, out):
    out.append((n.lab, n.kind, n.meta))
    if n.cons:
        for k in n.kids:
            _signature(k, out)
    return out


def label_tree(term, value, data, env, mode):
    """Parse `data` and label it.  Returns (tree, labelled?).  The two automatic-tag
    numbering schemes are both tried; when both fit the tree but label it differently
    the tree is left unlabelled."""
    good = []
    for scheme in ((0, 1) if mode == 'AUTOMATIC' else (0,)):
        tree = tlv4.parse_all(data)
        try:
            label(term, value, tree, env, mode, scheme)
            good.append(tree)
        except (LabelMismatch, KeyError):
            continue
    if len(good) == 1:
        return good[0], True
    if len(good) == 2 and _signature(good[0], []) == _signature(good[1], []):
        return good[0], True
    return tlv4.parse_all(data), False
