"""Known-finding predicates for C04 (over shrunk failures; `_term`, `_value`, `_env`
are live objects, `detail` is 'ops=<rewrite classes>; <error class>').

A rewrite class is '<op>:<node kind>' as assigned by mc/label4.py, e.g.
'indef:SEQ+additions-absent', 'perm:SET+additions-encoded/addition-before-root',
'seg:UTCTime', 'seg:OCTETSTRING/implicit'.
"""

from .terms import Leaf, Seq, Cho, Of, Ref, Tag, Grp, all_members


def _ops(f):
    d = f.get('detail') or ''
    if not d.startswith('ops='):
        return []
    return _split_ops(d[4:].split(';')[0])


def _split_ops(s):
    # op classes are joined with '+', and node kinds themselves contain '+additions-...'
    out = []
    for part in s.split('+'):
        if out and part.startswith('additions-'):
            out[-1] += '+' + part
        else:
            out.append(part)
    return out


def _kind(f):
    return f['kind'][len('decode:'):] if f['kind'].startswith('decode:') else f['kind']


def _seq_values(t, v, env, depth=0):
    """(Seq term, dict value) pairs inside a value."""
    if depth > 12:
        return
    while isinstance(t, (Ref, Tag)):
        t = env[t.name] if isinstance(t, Ref) else t.inner
    if isinstance(t, Seq) and isinstance(v, dict):
        yield t, v
        for m in all_members(t):
            if m.name in v:
                yield from _seq_values(m.t, v[m.name], env, depth + 1)
    elif isinstance(t, Cho) and isinstance(v, tuple) and len(v) == 2:
        for m in all_members(t):
            if m.name == v[0]:
                yield from _seq_values(m.t, v[1], env, depth + 1)
    elif isinstance(t, Of) and isinstance(v, list):
        for x in v[:8]:
            yield from _seq_values(t.elem, x, env, depth + 1)


def _addition_names(t):
    out = set()
    for a in t.adds:
        out.update(m.name for m in (a.members if isinstance(a, Grp) else [a]))
    return out


def indefinite_length_with_absent_additions(f):
    """One rewrite: a SEQUENCE / SET value whose type has extension additions, none of which is
    present in the value, re-serialised with indefinite length -> the decoder raises."""
    ops = _ops(f)
    if _kind(f) != 'decode-raised' or len(ops) != 1:
        return False
    op = ops[0]
    if not (op.startswith('indef:SEQ') or op.startswith('indef:SET')) or not op.endswith('+additions-absent'):
        return False
    err = f['detail'].split(';', 1)[1]
    if 'OutOfByteDataError' not in err and 'NoEndOfContentsTagError' not in err:
        return False
    for t, v in _seq_values(f['_term'], f['_value'], f['_env']):
        names = _addition_names(t)
        if names and not (names & set(v)):
            return True
    return False


def set_addition_before_root_component(f):
    """One rewrite: the components of a SET value permuted so that an extension addition
    precedes a component of the extension root -> DecodeTagError or a root component is
    silently replaced by its DEFAULT / dropped."""
    ops = _ops(f)
    if _kind(f) not in ('decode-raised', 'value-mismatch') or len(ops) != 1:
        return False
    op = ops[0]
    if not (op.startswith('perm:SET') and op.endswith('/addition-before-root') and '+additions-encoded' in op):
        return False
    if _kind(f) == 'decode-raised' and 'DecodeTagError' not in f['detail']:
        return False
    for t, v in _seq_values(f['_term'], f['_value'], f['_env']):
        names = _addition_names(t)
        if t.is_set and names & set(v) and (set(v) - names):
            return True
    return False


def time_type_constructed_form(f):
    """One rewrite: a UTCTime / GeneralizedTime value (bare or IMPLICIT-tagged) re-serialised in
    the constructed form -> tag error (or, inside an extensible CHOICE, decoded as an unknown
    alternative)."""
    ops = _ops(f)
    if _kind(f) not in ('decode-raised', 'value-mismatch') or len(ops) != 1:
        return False
    op = ops[0]
    if op not in ('seg:UTCTime', 'seg:GeneralizedTime', 'seg:UTCTime/implicit', 'seg:GeneralizedTime/implicit'):
        return False
    if _kind(f) == 'decode-raised' and 'DecodeTagError' not in f['detail']:
        return False
    if _kind(f) == 'value-mismatch' and not _has_extensible_choice(f['_term'], f['_env']):
        return False
    return _has_leaf(f['_term'], f['_env'], ('UTCTime', 'GeneralizedTime'))


def _walk_terms(t, env, seen=None, depth=0):
    seen = seen if seen is not None else set()
    if depth > 20:
        return
    yield t
    if isinstance(t, Ref):
        if t.name not in seen:
            seen.add(t.name)
            yield from _walk_terms(env[t.name], env, seen, depth + 1)
    elif isinstance(t, Tag):
        yield from _walk_terms(t.inner, env, seen, depth + 1)
    elif isinstance(t, Of):
        yield from _walk_terms(t.elem, env, seen, depth + 1)
    elif isinstance(t, (Seq, Cho)):
        for m in all_members(t):
            yield from _walk_terms(m.t, env, seen, depth + 1)


def _has_leaf(t, env, kinds):
    return any(isinstance(s, Leaf) and s.kind in kinds for s in _walk_terms(t, env))


def _has_extensible_choice(t, env):
    return any(isinstance(s, Cho) and s.ext for s in _walk_terms(t, env))
