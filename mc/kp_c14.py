"""Known-finding predicates for C14 (narrow tests over one representative failure)."""

from . import lexer

# the multi-word keywords that asn1tools/parser.py holds as one pyparsing Keyword('A B') literal
_PAIRS = {
    'octet_string': ('OCTET', 'STRING'),
    'bit_string': ('BIT', 'STRING'),
    'character_string': ('CHARACTER', 'STRING'),
    'object_identifier': ('OBJECT', 'IDENTIFIER'),
    'with_component': ('WITH', 'COMPONENT'),
    'with_components': ('WITH', 'COMPONENTS'),
    'with_syntax': ('WITH', 'SYNTAX'),
    'with_successors': ('WITH', 'SUCCESSORS'),
    'with_descendants': ('WITH', 'DESCENDANTS'),
    'components_of': ('COMPONENTS', 'OF'),
    'constrained_by': ('CONSTRAINED', 'BY'),
    'any_defined': ('ANY', 'DEFINED'),
    'defined_by': ('DEFINED', 'BY'),
    'extensibility_implied': ('EXTENSIBILITY', 'IMPLIED'),
}


def _kw_pair(pair):
    def pred(f):
        """The two reserved words of this keyword, separated in the original by exactly one space, are given
        any other separation (more white-space, a new-line, a comment) and the text is no longer accepted."""
        return (f.get('mode') in ('single', 'pairs', 'comments') and f.get('kind') == 'layout-rejects'
                and (f.get('left'), f.get('right')) == pair
                and f.get('left_kind') == 'kw' and f.get('right_kind') == 'kw'
                and f.get('gap_text') == ' ')
    return pred


for _name, _pair in _PAIRS.items():
    globals()['kw_' + _name] = _kw_pair(_pair)


def _cstring(f, marker):
    if f.get('mode') != 'cstring' or f.get('marker') != marker:
        return False
    text = f.get('text') or ''
    # the only difference from the accepted place-holder text is the content of one cstring
    # which holds the comment marker
    toks = [t for t in lexer.tokens(text) if t.kind == 'cstring' and t.text == '"' + f.get('content', '') + '"']
    return bool(toks) and {'dash': '--', 'block-open': '/*'}[marker] in f['content']


def cstring_double_hyphen(f):
    """A character-string literal whose content holds `--`."""
    return _cstring(f, 'dash')


def cstring_block_comment_open(f):
    """A character-string literal whose content holds `/*` (and no `--`)."""
    return _cstring(f, 'block-open')


def _blank_block_newlines(text):
    out = list(text)
    for l in lexer.scan(text)[1]:
        if l.kind == 'block':
            for i in range(l.start, l.end):
                if out[i] == '\n':
                    out[i] = ' '
    return ''.join(out)


def block_comment_newline_lost(f):
    """An error position after a `/* ... */` comment that spans lines: the line (and column) reported is the one
    obtained when the new-lines inside block comments are not counted — and nothing else is wrong."""
    if f.get('kind') not in ('error-line-wrong', 'error-column-wrong') or f.get('mode') not in ('errors', 'enumline'):
        return False
    rl = f.get('relayout')
    offs = f.get('expected_offsets')
    if not rl or not offs:
        return False
    blanked = _blank_block_newlines(rl)
    if blanked == rl:
        return False
    for o in offs:
        line, col = lexer.line_col(blanked, o)
        if f.get('observed_line') == line and f.get('observed_column') in (None, col):
            # and the position is really after a block comment holding a new-line
            return blanked[:o] != rl[:o]
    return False


def class_dot_field(f):
    """Layout between an object class reference and the `.` of `CLASS.&field` (the `.` directly followed by the
    field reference)."""
    ar = f.get('after_right') or [None, None]
    return (f.get('mode') in ('single', 'pairs', 'comments') and f.get('kind') == 'layout-rejects'
            and f.get('left_kind') == 'uref' and f.get('right') == '.' and f.get('gap_text') == ''
            and ar[0] == 'fieldref')
