"""Known-finding predicates for C18.

A predicate identifies one specific history shape on the (minimal) failure, never "the
module contains X".
"""


def decode_result_shares_default_list_with_specification(f):
    """The failing transition is a decode-scramble-decode script: the caller mutated the object a
    decode returned and the *second* decode of the same bytes then differs from the reference.
    The explorer recorded which mutable objects of the first result are part of the compiled
    specification's own object graph (found by identity, no attribute names): for this finding
    every such object is a `list` sitting at a named member of a decoded SEQUENCE / SET (the
    member's DEFAULT value), its value at decode time was still the pristine default `[]`, and
    the top-level result itself is not shared (a memoised result would be a shared dict at the
    empty path and is not matched)."""
    if f.get('kind') != 'history-divergence' or f.get('script_kind') != 'dec-mut-dec':
        return False
    if f.get('call_index') != 1:
        return False
    al = f.get('aliases')
    if not al:
        return False
    for a in al:
        path = a.get('path') or []
        if a.get('type') != 'list' or not path or not isinstance(path[-1], str):
            return False
        if a.get('value') != '[]':
            return False
    return True
