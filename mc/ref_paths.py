"""Positions inside a value, the dotted error path that leads to each, value
surgery (substitute / remove a component) and a covering set of valid values.

Nothing here imports asn1tools.

The path rule is the one the property states: the name of the top-level type,
then the name of every SEQUENCE / SET component and every CHOICE alternative on
the way to the component, joined with '.'.  List elements have no name of their
own (the library compiles the element type of SEQUENCE OF / SET OF with an
empty name, tests/test_constraints_checker.py: 'A: Expected an integer between
3 and 5' for an element of A), type references and tags add nothing.
"""

from dataclasses import dataclass
from .terms import Leaf, Seq, Cho, Of, Ref, Tag, all_members
from .values import leaf_dom


@dataclass(frozen=True)
class Pos:
    steps: tuple          # (('m', name) | ('c', name) | ('i', index), ...)
    term: object          # declared term at this position (Ref / Tag wrappers kept)
    value: object
    names: tuple          # member / alternative names on the way (no type name)
    via: tuple            # per step: kinds of the nodes walked through, for grouping
    refs: tuple           # names of the type references crossed on the way (in order)

    def path(self, tname):
        return '.'.join((tname,) + self.names)


def strip(t, env, crossed=None):
    """Strip Ref / Tag wrappers; `crossed` collects the reference names."""
    n = 0
    while True:
        if isinstance(t, Ref):
            if crossed is not None:
                crossed.append(t.name)
            t = env[t.name]
        elif isinstance(t, Tag):
            t = t.inner
        else:
            return t
        n += 1
        if n > 60:
            raise RecursionError('reference cycle')


def wrappers(t, env):
    """Kinds of the wrappers around the structural type, e.g. ('ref', 'tagE')."""
    out = []
    n = 0
    while isinstance(t, (Ref, Tag)) and n < 60:
        if isinstance(t, Ref):
            out.append('ref')
            t = env[t.name]
        else:
            out.append('tag' + (t.mode[:1] or 'd'))
            t = t.inner
        n += 1
    return tuple(out)


def kind_of(t, env):
    s = strip(t, env)
    if isinstance(s, Leaf):
        return s.kind
    if isinstance(s, Seq):
        return 'SET' if s.is_set else 'SEQUENCE'
    if isinstance(s, Cho):
        return 'CHOICE'
    if isinstance(s, Of):
        return 'SET OF' if s.is_set else 'SEQUENCE OF'
    raise TypeError(s)


def member_class(s, name):
    """Where a component of a Seq / Cho sits: root | add | group | root2."""
    from .terms import Grp
    for m in s.root:
        if m.name == name:
            return 'root'
    for a in s.adds:
        if isinstance(a, Grp):
            for m in a.members:
                if m.name == name:
                    return 'group'
        elif a.name == name:
            return 'add'
    for m in getattr(s, 'root2', ()):
        if m.name == name:
            return 'root2'
    return None


def positions(term, value, env, max_list=3):
    """Every component position of `value` (a value of `term`), root first."""
    out = []

    def walk(t, v, steps, names, via, refs):
        crossed = []
        s = strip(t, env, crossed)
        refs2 = refs + tuple(crossed)
        out.append(Pos(steps, t, v, names, via, refs2))
        w = wrappers(t, env)
        if isinstance(s, Seq) and isinstance(v, dict):
            for m in all_members(s):
                if m.name in v:
                    walk(m.t, v[m.name], steps + (('m', m.name),), names + (m.name,),
                         via + (w + (('set' if s.is_set else 'seq') + ':' + member_class(s, m.name) + ':' + m.q,),),
                         refs2)
        elif isinstance(s, Cho) and isinstance(v, tuple) and len(v) == 2:
            for m in all_members(s):
                if m.name == v[0]:
                    walk(m.t, v[1], steps + (('c', m.name),), names + (m.name,),
                         via + (w + ('cho:' + member_class(s, m.name),),), refs2)
        elif isinstance(s, Of) and isinstance(v, list):
            for i, x in enumerate(v[:max_list]):
                walk(s.elem, x, steps + (('i', i),), names,
                     via + (w + ('setof' if s.is_set else 'seqof',),), refs2)

    walk(term, value, (), (), (), ())
    return out


def substitute(value, steps, new):
    """Copy of `value` with the component at `steps` replaced by `new`."""
    if not steps:
        return new
    (k, key), rest = steps[0], steps[1:]
    if k == 'm':
        out = dict(value)
        out[key] = substitute(value[key], rest, new)
        return out
    if k == 'c':
        return (value[0], substitute(value[1], rest, new))
    if k == 'i':
        out = list(value)
        out[key] = substitute(value[key], rest, new)
        return out
    raise ValueError(k)


def remove_member(value, steps, name):
    """Copy of `value` with member `name` of the SEQUENCE / SET value at `steps` removed."""
    def rec(v, st):
        if not st:
            out = dict(v)
            del out[name]
            return out
        (k, key), rest = st[0], st[1:]
        if k == 'm':
            out = dict(v)
            out[key] = rec(v[key], rest)
            return out
        if k == 'c':
            return (v[0], rec(v[1], rest))
        out = list(v)
        out[key] = rec(v[key], rest)
        return out
    return rec(value, steps)


def get_at(value, steps):
    for k, key in steps:
        if k == 'c':
            value = value[1]
        else:
            value = value[key]
    return value


# ---------------------------------------------------------------------------
# a covering set of valid values

def _leaf_base(l):
    d = leaf_dom(l, big=False) or leaf_dom(l, big=True)     # (a fixed SIZE above 300 has only big values)
    return d[0]


def cover_values(term, env, depth=3, _stack=()):
    """A small list of valid values of `term` such that every component position
    reachable with at most `depth` unrollings of each recursive reference occurs
    in at least one of them with every OPTIONAL / DEFAULT component present, plus
    one value with the OPTIONAL / DEFAULT components absent.  Values satisfy every
    enforced constraint layer (also those applied to a reference).  None when the
    term has no value within the unrolling bound."""
    from .cterms import layers, CRef
    from .ref_constraints import valid_leaf_value, valid_length
    s, ls = layers(term, env)
    if isinstance(s, Leaf):
        return [valid_leaf_value(s, ls, _leaf_base(s))]
    # count unrollings of the references crossed to get here
    t = term
    stack = _stack
    n = 0
    while isinstance(t, (Ref, Tag)) and n < 60:
        if isinstance(t, Ref):
            name = t.base if isinstance(t, CRef) else t.name
            if stack.count(name) >= depth:
                return None
            stack = stack + (name,)
            t = env[name]
        else:
            t = t.inner
        n += 1
    if isinstance(s, Seq):
        mems = all_members(s)
        covs = []
        for m in mems:
            c = cover_values(m.t, env, depth, stack)
            if c is None:
                if m.q == 'M':
                    return None
                c = []
            if m.q == 'D' and c:
                c = [x for x in c if x != m.default] or c
            covs.append(c)
        n = max([len(c) for c in covs] + [1])
        out = []
        for i in range(n):
            out.append({m.name: c[i % len(c)] for m, c in zip(mems, covs) if c})
        minimal = {m.name: c[0] for m, c in zip(mems, covs) if c and m.q == 'M'}
        if minimal not in out:
            out.append(minimal)
        return out
    if isinstance(s, Cho):
        out = []
        for m in all_members(s):
            c = cover_values(m.t, env, depth, stack)
            if c is None:
                continue
            out.extend((m.name, x) for x in c)
        return out or None
    if isinstance(s, Of):
        c = cover_values(s.elem, env, depth, stack)
        n = valid_length(ls, 2)
        if c is None or n == 0:
            return [[]] if valid_length(ls, 0) == 0 else None
        if n > 300:
            return [[c[0]] * n]
        out = []
        i = 0
        while i < len(c) or not out:
            out.append([c[(i + j) % len(c)] for j in range(n)])
            i += n
        return out
    raise TypeError(s)
