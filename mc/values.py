"""Finite boundary value domains per term, and deviation-bounded products.

dom(t)[0] is the *base* value (simplest).  Domains are fixed lists: nothing is
sampled.  Values are in the library's Python representation, ENUMERATED as names
(converted by to_numeric() for numeric_enums=True).
"""

import datetime
import itertools
from .terms import (Leaf, Seq, Cho, Of, Ref, Tag, M, Grp, Rng, MIN, MAX,
                    STRING_KINDS, all_members, resolve, enum_numbers)

UNCONSTRAINED_INTS = [0, 1, -1, 127, 128, -128, -129, 255, 256, 32767, 32768,
                      -32768, -32769, 65535, 65536, 2**31 - 1, 2**31, -2**31,
                      -2**31 - 1, 2**32 - 1, 2**32, 2**63 - 1, 2**63, -2**63,
                      -2**63 - 1, 2**64 - 1, 2**64, 2**70, -2**70]
INT_THRESHOLDS = [0, 127, 128, 255, 256, 65535, 65536, 2**24, 2**32 - 1, 2**32,
                  2**63 - 1, 2**63, 2**64 - 1]
LENGTHS = [0, 1, 2, 3, 4, 5, 15, 16, 17, 63, 64, 65, 127, 128, 129, 255, 256, 257]
BIG_LENGTHS_THOROUGH = [16383, 16384, 16385, 32768, 49152, 65535, 65536, 65537, 70000]
BIG_LENGTHS_QUICK = [16383, 16384, 65536]
BIG_LENGTHS = BIG_LENGTHS_QUICK


# lengths of ONE long component inside a composite value (the other components at base): beyond the
# 4096-bit accumulator of per.Encoder (512 octets) and on the 16K fragmentation boundary
MEMBER_BIG_QUICK = [600, 16384]
MEMBER_BIG_THOROUGH = [511, 512, 513, 600, 16383, 16384, 65536]
MEMBER_BIG = MEMBER_BIG_QUICK
# list lengths above 300 (only lists of BOOLEAN / INTEGER / NULL / ENUMERATED elements get them)
OF_BIG_QUICK = [16384]
OF_BIG_THOROUGH = list(BIG_LENGTHS_THOROUGH)
OF_BIG = OF_BIG_QUICK


def set_tier(tier):
    global BIG_LENGTHS, MEMBER_BIG, OF_BIG
    OF_BIG = OF_BIG_THOROUGH if tier == 'thorough' else OF_BIG_QUICK
    BIG_LENGTHS = BIG_LENGTHS_THOROUGH if tier == 'thorough' else BIG_LENGTHS_QUICK
    MEMBER_BIG = MEMBER_BIG_THOROUGH if tier == 'thorough' else MEMBER_BIG_QUICK


REALS = [0.0, 1.0, -1.0, 0.1, 0.5, 3.14, -2.5, float(2**100), 1e300, 1e-300,
         5e-324, 1.7976931348623157e308, float('inf'), float('-inf'),
         1234567.0, 1e10, 16777215.0, 2.0**-149,
         # exponent-octet thresholds of the X.690 binary form (one octet holds -128..127):
         # mantissa 1 and a full 53-bit mantissa on both sides of each threshold
         2.0**-129, 2.0**-128, 2.0**127, 2.0**128,
         (2.0 - 2.0**-52) * 2.0**-77, (2.0 - 2.0**-52) * 2.0**-76,
         (2.0 - 2.0**-52) * 2.0**179, (2.0 - 2.0**-52) * 2.0**180]

OIDS = ['1.2', '0.0', '0.39', '1.0', '1.39', '2.0', '2.39', '2.40', '2.47', '2.48',
        '2.999', '2.999.3', '1.2.127', '1.2.128', '1.2.16383', '1.2.16384',
        '1.2.4294967296', '1.2.840.113549.1.1.11']

_ALPHA = {
    'NumericString': ' 0123456789',
    'PrintableString': "ABCXYZabcxyz0189 '()+,-./:=?",
    'IA5String': 'ab~ \x00\x7fA0',
    'VisibleString': 'ab~ A0',
    'BMPString': 'ab~ é€￿',
    'UniversalString': 'ab~ é€\U0001f600',
    'UTF8String': 'ab~ é€\U0001f600',
    'GeneralString': 'ab~ ',
    'GraphicString': 'ab~ ',
    'TeletexString': 'ab~ ',
    'ObjectDescriptor': 'ab~ ',
}


def _dedupe(xs):
    out = []
    seen = set()
    for x in xs:
        k = repr(x)
        if k not in seen:
            seen.add(k)
            out.append(x)
    return out


def int_dom(rng, big=True):
    if rng is None:
        return list(UNCONSTRAINED_INTS)
    lo, hi = rng.lo(), rng.hi()
    vals = []
    if lo is not None and hi is not None:
        vals += [lo, hi, lo + 1, hi - 1, (lo + hi) // 2]
        vals += [t for t in INT_THRESHOLDS if lo <= t <= hi]
        vals += [-t - 1 for t in INT_THRESHOLDS if lo <= -t - 1 <= hi]
        vals = [v for v in vals if lo <= v <= hi]
    elif lo is not None:
        vals += [lo, lo + 1, lo + 127, lo + 128, lo + 255, lo + 256, lo + 65536, lo + 2**64]
        vals += [v for v in UNCONSTRAINED_INTS if v >= lo]
    elif hi is not None:
        vals += [hi, hi - 1, hi - 128, hi - 129, hi - 65536]
        vals += [v for v in UNCONSTRAINED_INTS if v <= hi]
    else:
        vals += UNCONSTRAINED_INTS
    if rng.ext:
        if lo is not None:
            vals += [lo - 1, lo - 129, lo - 2**33]
        if hi is not None:
            vals += [hi + 1, hi + 129, hi + 2**33]
        vals += [0, -1, -129, 256, 2**64]
    return _dedupe(vals)


def size_dom(size, big):
    """Lengths to try for a SIZE constraint (None = unconstrained)."""
    cand = LENGTHS + (BIG_LENGTHS if big else [])
    if size is None:
        return [n for n in cand]
    lo = size.lo() or 0
    hi = size.hi()
    vals = [lo, lo + 1]
    if hi is not None:
        vals += [hi, hi - 1, (lo + hi) // 2]
    vals += [n for n in cand if n >= lo and (hi is None or n <= hi)]
    vals = [v for v in vals if v >= lo and (hi is None or v <= hi)]
    if size.ext:
        if lo > 0:
            vals.append(lo - 1)
        if hi is not None:
            vals += [hi + 1, hi + 2]
            if big:
                vals += [hi + 130, 16384]
    vals = [v for v in vals if big or v <= 300]
    return _dedupe(vals)


def _mkstr(chars, n, variant):
    if n == 0:
        return ''
    if variant == 0:
        return (chars[0] * n)
    if variant == 1:
        return (chars[-1] * n)
    # cycle through the alphabet
    return ''.join(chars[(i + variant) % len(chars)] for i in range(n))


def string_dom(l, big):
    chars = l.alpha if l.alpha is not None else _ALPHA[l.kind]
    out = []
    for n in size_dom(l.size, big):
        if n > 300:
            out.append(_mkstr(chars, n, 2 if n % 2 else 0))
            continue
        for variant in (0, 1, 2):
            out.append(_mkstr(chars, n, variant))
    return _dedupe(out)


def _bits(n, variant):
    """(bytes, n) with a pattern; variant 0 zeros, 1 ones, 2 last-bit-set, 3 garbage in unused bits."""
    nbytes = (n + 7) // 8
    if variant == 0:
        b = bytearray(nbytes)
    elif variant == 1:
        b = bytearray([0xff] * nbytes)
        if n % 8:
            b[-1] = (0xff << (8 - n % 8)) & 0xff
    elif variant == 2:
        b = bytearray(nbytes)
        if n:
            b[(n - 1) // 8] |= 0x80 >> ((n - 1) % 8)
    else:
        b = bytearray([0xa5] * nbytes)
        if n % 8:
            b[-1] |= 0x01           # garbage beyond the n bits
    return (bytes(b), n)


def bitstring_dom(l, big):
    out = []
    for n in size_dom(l.size, big):
        if n > 300:
            out.append(_bits(n, 2))
            continue
        for variant in (2, 0, 1, 3):
            out.append(_bits(n, variant))
    if l.named:
        for name, pos in l.named:
            out.append(_bits(pos + 1, 2))
    return _dedupe(out)


def octets_dom(l, big):
    out = []
    for n in size_dom(l.size, big):
        out.append(bytes((i * 37 + 1) & 0xff for i in range(n)))
        if n <= 300:
            out.append(b'\x00' * n)
            out.append(b'\xff' * n)
    return _dedupe(out)


UTC = datetime.timezone.utc
TIMES = {
    'UTCTime': [datetime.datetime(2018, 6, 11, 11, 4, 59), datetime.datetime(1999, 12, 31, 23, 59),
                datetime.datetime(2049, 1, 1, 0, 0, 0)],
    'GeneralizedTime': [datetime.datetime(2018, 1, 31, 5, 0, 47), datetime.datetime(2000, 2, 29, 12, 0),
                        datetime.datetime(2018, 1, 31, 5, 0, 47, 123000),
                        datetime.datetime(1601, 1, 1, 0, 0, 1)],
    'DATE': [datetime.date(1985, 4, 12), datetime.date(2000, 2, 29), datetime.date(1, 1, 1),
             datetime.date(9999, 12, 31)],
    'TIME-OF-DAY': [datetime.time(15, 27, 46), datetime.time(0, 0, 0), datetime.time(23, 59, 59)],
    'DATE-TIME': [datetime.datetime(1985, 4, 12, 15, 27, 30), datetime.datetime(2000, 2, 29, 0, 0, 0),
                  datetime.datetime(9999, 12, 31, 23, 59, 59)],
}


def leaf_dom(l, big=True):
    k = l.kind
    if k == 'BOOLEAN':
        return [True, False]
    if k == 'NULL':
        return [None]
    if k == 'INTEGER':
        return int_dom(l.rng)
    if k == 'REAL':
        if l.wc == 'binary32':
            return [0.0, 1.0, -1.0, 0.5, 16777215.0, 2.0**-149, 1.5,
                    float('inf'), float('-inf'), -2.5]
        return list(REALS)
    if k == 'OID':
        return list(OIDS)
    if k == 'ENUMERATED':
        root, adds = enum_numbers(l)
        names = [n for n, _ in root]
        if len(names) > 6:
            names = names[:3] + names[-3:]
        if adds:
            an = [n for n, _ in adds]
            if len(an) > 4:
                an = an[:2] + an[-2:]
            names += an
        return names
    if k == 'BITSTRING':
        return bitstring_dom(l, big)
    if k == 'OCTETSTRING':
        return octets_dom(l, big)
    if k in STRING_KINDS:
        return string_dom(l, big)
    if k in TIMES:
        return list(TIMES[k])
    raise ValueError(k)


def product_bounded(doms, k, cap=48, reduced=3):
    """Deviation-bounded product: the whole product when it has <= cap elements;
    otherwise base everywhere, then every choice of <= k positions deviating
    (single deviations run through the full domain, multiple ones through the
    first `reduced` non-base values of each)."""
    total = 1
    for d in doms:
        total *= len(d)
        if total > cap:
            break
    if total <= cap:
        yield from itertools.product(*doms)
        return
    base = [d[0] for d in doms]
    yield tuple(base)
    for kk in range(1, k + 1):
        for pos in itertools.combinations(range(len(doms)), kk):
            alts = [doms[p][1:] if kk == 1 else doms[p][1:1 + reduced] for p in pos]
            for choice in itertools.product(*alts):
                v = list(base)
                for p, c in zip(pos, choice):
                    v[p] = c
                yield tuple(v)


ABSENT = ('<absent>',)
_OVERRIDE = [None]
_INCOMPLETE = [False]


def enable_incomplete(on=True):
    """Opt in to the earlier-version values (mandatory extension additions absent from some
    addition on).  Called from a property module's setup(), before the workers are forked."""
    _INCOMPLETE[0] = bool(on)


def is_incomplete(t, v, env, _depth=0):
    """True when value v of term t lacks a component that is neither OPTIONAL nor DEFAULT
    (only extension additions are ever left out by dom())."""
    if _depth > 12:
        return False
    try:
        t = resolve(t, env)
    except (KeyError, RecursionError):
        return False
    if isinstance(t, Seq) and isinstance(v, dict):
        for m in all_members(t):
            if m.name not in v:
                if m.q == 'M':
                    return True
            elif is_incomplete(m.t, v[m.name], env, _depth + 1):
                return True
        return False
    if isinstance(t, Cho) and isinstance(v, tuple) and len(v) == 2:
        for m in all_members(t):
            if m.name == v[0]:
                return is_incomplete(m.t, v[1], env, _depth + 1)
        return False
    if isinstance(t, Of) and isinstance(v, list):
        return any(is_incomplete(t.elem, x, env, _depth + 1) for x in v[:8])
    return False


def dom_with(t, env, override, **kw):
    """dom() with the domains of some leaves replaced: override(leaf) -> list or None."""
    _OVERRIDE[0] = override
    try:
        return dom(t, env, **kw)
    finally:
        _OVERRIDE[0] = None


def _size_admits(size, n):
    if size is None:
        return True
    lo, hi = size.lo() or 0, size.hi()
    return (lo <= n and (hi is None or n <= hi)) or (size.ext and n >= 0)


def member_big_values(t, env):
    """Long values (MEMBER_BIG lengths) of a component type that is a string-like leaf or a
    list of cheap elements, reached through tags and references; [] for anything else."""
    try:
        r = resolve(t, env)
    except (KeyError, RecursionError):
        return []
    out = []
    if isinstance(r, Leaf):
        for n in MEMBER_BIG:
            if not _size_admits(r.size, n):
                continue
            if r.kind == 'OCTETSTRING':
                out.append(bytes((i * 37 + 1) & 0xff for i in range(n)))
            elif r.kind == 'BITSTRING' and not r.named:
                out.append(_bits(n, 2))
            elif r.kind in STRING_KINDS:
                chars = r.alpha if r.alpha is not None else _ALPHA[r.kind]
                out.append(_mkstr(chars, n, 2 if n % 2 else 0))
    elif isinstance(r, Of) and _cheap(r.elem, env):
        d = dom(r.elem, env, False)
        if d:
            d = list(d)
            for n in MEMBER_BIG:
                if _size_admits(r.size, n) and n <= 20000:
                    out.append([d[i % len(d)] for i in range(n)])
    return out


def dom(t, env, big=True, k=2, depth=2, cap=48, _stack=()):
    """Value domain of term t. `depth` bounds unrolling of recursive references."""
    if isinstance(t, Ref):
        if t.name in _stack:
            if depth <= 0:
                return None          # cannot be given a value at this depth
            depth -= 1
        return dom(env[t.name], env, big, k, depth, cap, _stack + (t.name,))
    if isinstance(t, Tag):
        return dom(t.inner, env, big, k, depth, cap, _stack)
    if isinstance(t, Leaf):
        if _OVERRIDE[0] is not None:
            r = _OVERRIDE[0](t)
            if r is not None:
                return list(r)
        return leaf_dom(t, big)
    if isinstance(t, Seq):
        mems = all_members(t)
        doms = []
        for m in mems:
            d = dom(m.t, env, False, k, depth, cap, _stack)
            if d is None:
                if m.q == 'M':
                    return None
                d = []
            d = list(d)
            if m.q in ('O', 'D'):
                if m.q == 'D' and m.default is not None and m.default not in d:
                    d.insert(1, m.default)
                d = d[:1] + [ABSENT] + d[1:] if d else [ABSENT]
            doms.append(_trim(d, 8))
        out = []
        for combo in product_bounded(doms, k, cap):
            out.append({m.name: v for m, v in zip(mems, combo) if v is not ABSENT})
        # one long component (see MEMBER_BIG), the others at base; once with every OPTIONAL /
        # DEFAULT component absent-or-base as in the base value, once with all of them present
        if all(doms):
            base = [d[0] for d in doms]
            present = [next((x for x in d if x is not ABSENT), ABSENT) for d in doms]
            for i, m in enumerate(mems):
                for bv in member_big_values(m.t, env):
                    for rest in (base, present):
                        combo = list(rest)
                        combo[i] = bv
                        out.append({mm.name: v for mm, v in zip(mems, combo) if v is not ABSENT})
            # values of an EARLIER VERSION of the type: every extension addition from some point
            # on is absent although it is not OPTIONAL (what a relay holds after decoding an older
            # message; DESIGN 1.3 "second class").  An encoder may reject them with its EncodeError;
            # if it produces bytes, the oracles apply.
            nroot = len(t.root)
            nadd = len(mems) - nroot - len(t.root2)
            if _INCOMPLETE[0] and nadd and any(m.q == 'M' for m in mems[nroot:nroot + nadd]):
                starts, pos = [], 0         # cut only between additions, never inside a [[group]]
                for a in t.adds:
                    starts.append(pos)
                    pos += len(a.members) if isinstance(a, Grp) else 1
                for cut in starts:
                    if not any(m.q == 'M' for m in mems[nroot + cut:nroot + nadd]):
                        continue
                    for rest in (base, present):
                        combo = list(rest)
                        for j in range(nroot + cut, nroot + nadd):
                            combo[j] = ABSENT
                        out.append({mm.name: v for mm, v in zip(mems, combo) if v is not ABSENT})
            out = _dedupe(out)
        return out
    if isinstance(t, Cho):
        out = []
        for m in all_members(t):
            d = dom(m.t, env, False, k, depth, cap, _stack)
            if d is None:
                continue
            for v in _trim(list(d), 8):
                out.append((m.name, v))
            for bv in member_big_values(m.t, env):
                out.append((m.name, bv))
        return out or None
    if isinstance(t, Of):
        d = dom(t.elem, env, False, k, depth, cap, _stack)
        out = []
        sizes = size_dom(t.size, big)
        if not d:                   # no value of the element type at this depth (None) or an empty domain
            return [[]] if 0 in sizes else None
        d = list(d)
        for n in sizes:
            if n > 300:
                if _cheap(t.elem, env) and (n in OF_BIG or n not in BIG_LENGTHS_THOROUGH):
                    out.append([d[i % len(d)] for i in range(n)])
                continue
            if n == 0:
                out.append([])
                continue
            out.append([d[0]] * n)
            out.append([d[i % len(d)] for i in range(n)])
            out.append([d[-1 - (i % len(d))] for i in range(n)])
            if n <= 3:
                for x in d[1:6]:
                    out.append([x] + [d[0]] * (n - 1))
                for bv in member_big_values(t.elem, env):
                    out.append([d[0]] * (n - 1) + [bv])
        return _dedupe(out)
    raise TypeError(t)


def _trim(d, n):
    """Keep the base plus at most n-1 further values, preferring the front and
    the back of the list (domains are ordered base, boundaries, exotic)."""
    if len(d) <= n:
        return d
    h = n // 2
    return d[:n - h] + d[-h:]


def _cheap(t, env):
    t = resolve(t, env)
    return isinstance(t, Leaf) and t.kind in ('BOOLEAN', 'INTEGER', 'NULL', 'ENUMERATED')


# ---------------------------------------------------------------------------
# numeric_enums conversion

def to_numeric(t, v, env):
    """Convert ENUMERATED names in value v to numbers (numeric_enums=True)."""
    t = resolve(t, env)
    if isinstance(t, Leaf):
        if t.kind == 'ENUMERATED' and isinstance(v, str):
            root, adds = enum_numbers(t)
            return dict(root + (adds or []))[v]
        return v
    if isinstance(t, Seq):
        out = {}
        byname = {m.name: m for m in all_members(t)}
        for key, x in v.items():
            out[key] = to_numeric(byname[key].t, x, env) if key in byname else x
        return out
    if isinstance(t, Cho):
        byname = {m.name: m for m in all_members(t)}
        if v[0] in byname:
            return (v[0], to_numeric(byname[v[0]].t, v[1], env))
        return v
    if isinstance(t, Of):
        return [to_numeric(t.elem, x, env) for x in v]
    return v
