"""Accelerator for C07: build the dictionary that `asn1tools.parse_string` returns
for a module directly from type terms.

Why: the pyparsing grammar needs 40-100 ms per SEQUENCE assignment (measured),
and C07 compiles tens of thousands of (old, new) type pairs whose text differs
in one component.  The parser is not among C07's anchors (the codecs are), so
the explored pairs are handed to `compile_dict` in parsed form.

The text stays the reference:
  * `validate(spec_text, parsed)` parses the rendered module text with the real
    parser and demands dictionary equality; every work unit validates a rotating
    sample of its types on every run (a mismatch is a machinery error, exit 2),
    and the whole quick space was compared once during development;
  * every failing case is re-run from the rendered text before it is reported,
    and shrinking / replay use the text pipeline only.

Only the productions that the C07 alphabets use are supported; anything else
raises NotImplementedError (machinery error), never a silent guess.
"""

from .terms import (Leaf, Rng, Seq, Cho, Of, Ref, Tag, M, Grp, MIN, MAX, enum_numbers, STRING_KINDS)
from .versions import WRng


def _bound(r):
    if r.single:
        return r.lb
    return (r.lb, r.ub)


def _rng(r):
    if r.lb_sym or r.ub_sym:
        raise NotImplementedError('symbolic bounds')
    out = [_bound(r)]
    if isinstance(r, WRng):
        out += [None, r.extra()]
    elif r.ext:
        out.append(None)
    return out


def _default(t, v):
    while isinstance(t, Tag):
        t = t.inner
    if not isinstance(t, Leaf):
        raise NotImplementedError('structured DEFAULT')
    k = t.kind
    if k in ('BOOLEAN', 'INTEGER', 'ENUMERATED') or k in STRING_KINDS:
        return v
    if k == 'OCTETSTRING':
        return '0x' + bytes(v).hex().upper()
    if k == 'BITSTRING':
        data, n = v
        return '0b' + ''.join('{:08b}'.format(b) for b in data)[:n]
    raise NotImplementedError('DEFAULT of ' + k)


def type_dict(t):
    if isinstance(t, Tag):
        d = type_dict(t.inner)
        if 'tag' in d:
            raise NotImplementedError('double tag')
        tag = {'number': t.num}
        if t.mode:
            tag['kind'] = t.mode
        if t.cls:
            tag['class'] = t.cls
        d['tag'] = tag
        return d
    if isinstance(t, Ref):
        return {'type': t.name}
    if isinstance(t, Leaf):
        k = t.kind
        if t.alpha is not None or t.wc is not None:
            raise NotImplementedError('FROM / WITH COMPONENTS')
        if k == 'INTEGER':
            d = {'type': 'INTEGER'}
            if t.named:
                raise NotImplementedError('named numbers')
            if t.rng is not None:
                d['restricted-to'] = _rng(t.rng)
            return d
        if k == 'ENUMERATED':
            root, adds = enum_numbers(t)
            vals = list(root)
            if adds is not None:
                vals.append(None)
                vals.extend(adds)
            return {'type': 'ENUMERATED', 'values': vals}
        if k in ('BOOLEAN', 'NULL'):
            return {'type': k}
        if k in ('BITSTRING', 'OCTETSTRING'):
            d = {'type': 'BIT STRING' if k == 'BITSTRING' else 'OCTET STRING'}
            if t.named:
                d['named-bits'] = [(n, str(v)) for n, v in t.named]
            if t.size is not None:
                d['size'] = _rng(t.size)
            return d
        if k in STRING_KINDS:
            d = {'type': k}
            if t.size is not None:
                d['size'] = _rng(t.size)
            return d
        raise NotImplementedError(k)
    if isinstance(t, Of):
        d = {'type': 'SET OF' if t.is_set else 'SEQUENCE OF', 'element': type_dict(t.elem)}
        if t.size is not None:
            d['size'] = _rng(t.size)
        return d
    if isinstance(t, (Seq, Cho)):
        ms = [member_dict(m) for m in t.root]
        if t.ext:
            ms.append(None)
            for a in t.adds:
                if isinstance(a, Grp):
                    ms.append([member_dict(m) for m in a.members])
                else:
                    ms.append(member_dict(a))
            if isinstance(t, Seq) and t.root2:
                ms.append(None)
                ms.extend(member_dict(m) for m in t.root2)
        if isinstance(t, Cho):
            return {'type': 'CHOICE', 'members': ms}
        return {'type': 'SET' if t.is_set else 'SEQUENCE', 'members': ms}
    raise NotImplementedError(type(t).__name__)


def member_dict(m):
    d = type_dict(m.t)
    d['name'] = m.name
    if m.q == 'O':
        d['optional'] = True
    elif m.q == 'D':
        if m.default_txt is not None:
            raise NotImplementedError('DEFAULT text')
        d['default'] = _default(m.t, m.default)
    return d


def module_dict(name, tags, types):
    """What parse_string returns for render_module(Module(name, types, tags=tags, values=[]))."""
    d = {
        'extensibility-implied': False,
        'imports': {},
        'object-classes': {},
        'object-sets': {},
        'types': {n: type_dict(t) for n, t in types},
        'values': {},
    }
    if tags != 'EXPLICIT':
        # render_module prints no tag default for EXPLICIT; the parser then omits the key
        d['tags'] = tags
    return {name: d}


def _plain(x):
    """Tuples and lists compare differently; the parser mixes them. Normalise for comparison only."""
    if isinstance(x, dict):
        return {k: _plain(v) for k, v in x.items()}
    if isinstance(x, (list, tuple)):
        return [type(x).__name__] + [_plain(v) for v in x]
    return x


def diff(a, b, path=''):
    """First difference between two parsed structures (None when equal, types included)."""
    if type(a) is not type(b):
        return '%s: %r vs %r' % (path, a, b)
    if isinstance(a, dict):
        for k in sorted(set(a) | set(b), key=str):
            if k not in a or k not in b:
                return '%s.%s: missing on one side (%r / %r)' % (path, k, a.get(k), b.get(k))
            d = diff(a[k], b[k], path + '.' + str(k))
            if d:
                return d
        return None
    if isinstance(a, (list, tuple)):
        if len(a) != len(b):
            return '%s: length %d vs %d' % (path, len(a), len(b))
        for i, (x, y) in enumerate(zip(a, b)):
            d = diff(x, y, '%s[%d]' % (path, i))
            if d:
                return d
        return None
    if a != b:
        return '%s: %r vs %r' % (path, a, b)
    return None


def validate(spec_text, parsed, parse):
    """Parse spec_text with the real parser and compare with `parsed`."""
    real = parse(spec_text)
    return diff(real, parsed)
