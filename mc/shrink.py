"""Deterministic greedy shrinking of a failing (term, value) case to a
1-minimal one with the same property, codec and failure kind."""

from dataclasses import replace
from .terms import (Leaf, Seq, Cho, Of, Ref, Tag, M, Grp, Rng, all_members, render_type)
from .values import leaf_dom
from .casefmt import rebuild_case, single_unit, case_fields, valrepr

B = Leaf('BOOLEAN')
MAX_TESTS = 250


def _seq_without(t, name):
    def filt(ms):
        return tuple(m for m in ms if m.name != name)
    adds = []
    for a in t.adds:
        if isinstance(a, Grp):
            ms = filt(a.members)
            if ms:
                adds.append(Grp(ms))
        elif a.name != name:
            adds.append(a)
    return replace(t, root=filt(t.root), adds=tuple(adds), root2=filt(t.root2))


def _seq_replace(t, name, newm):
    def rep(ms):
        return tuple(newm if m.name == name else m for m in ms)
    adds = []
    for a in t.adds:
        if isinstance(a, Grp):
            adds.append(Grp(rep(a.members)))
        else:
            adds.append(newm if a.name == name else a)
    return replace(t, root=rep(t.root), adds=tuple(adds), root2=rep(t.root2))


def projections(term, v, env):
    """Sub-cases: a component on its own."""
    if isinstance(term, Ref):
        yield env[term.name], v
    elif isinstance(term, Tag):
        yield term.inner, v
    elif isinstance(term, Seq) and isinstance(v, dict):
        for m in all_members(term):
            if m.name in v:
                yield m.t, v[m.name]
    elif isinstance(term, Cho) and isinstance(v, tuple):
        for m in all_members(term):
            if m.name == v[0]:
                yield m.t, v[1]
    elif isinstance(term, Of) and isinstance(v, list):
        seen = []
        for x in v:
            if x not in seen:
                seen.append(x)
                yield term.elem, x
                if len(seen) >= 4:
                    break


def local_rewrites(term, v, env):
    """One-step simplifications at the root of (term, v)."""
    if isinstance(term, Seq) and isinstance(v, dict):
        for m in all_members(term):
            t2 = _seq_without(term, m.name)
            if all_members(t2):
                v2 = {k: x for k, x in v.items() if k != m.name}
                yield t2, v2
        if term.ext and not term.adds and not term.root2:
            yield replace(term, ext=False), v
        if term.root2:
            yield replace(term, root=term.root + term.root2, root2=()), v
        for a in term.adds:
            if isinstance(a, Grp):
                # flatten a group
                adds = []
                for b in term.adds:
                    if b is a:
                        adds.extend(a.members)
                    else:
                        adds.append(b)
                yield replace(term, adds=tuple(adds)), v
        if term.is_set:
            yield replace(term, is_set=False), v
        for m in all_members(term):
            if m.name in v:
                if m.q != 'M':
                    yield _seq_replace(term, m.name, M(m.name, m.t)), v
                if m.t != B:
                    yield _seq_replace(term, m.name, M(m.name, B, m.q if m.q != 'D' else 'O')), dict(v, **{m.name: True})
            else:
                if m.t != B:
                    yield _seq_replace(term, m.name, M(m.name, B, 'O')), v
    elif isinstance(term, Cho) and isinstance(v, tuple):
        for m in all_members(term):
            if m.name != v[0]:
                root = tuple(x for x in term.root if x.name != m.name)
                adds = tuple(x for x in term.adds if isinstance(x, Grp) or x.name != m.name)
                if root:
                    yield replace(term, root=root, adds=adds), v
        if term.ext and not term.adds:
            yield replace(term, ext=False), v
        for m in all_members(term):
            if m.name == v[0] and m.t != B:
                def rep(ms):
                    return tuple(M(x.name, B) if x.name == m.name else x for x in ms)
                yield replace(term, root=rep(term.root),
                              adds=tuple(a if isinstance(a, Grp) else (M(a.name, B) if a.name == m.name else a)
                                         for a in term.adds)), (v[0], True)
    elif isinstance(term, Of) and isinstance(v, list):
        if len(v) > 0:
            yield term, v[:len(v) // 2]
            yield term, v[:-1]
            yield term, v[1:]
        if term.size is not None:
            yield replace(term, size=None), v
        if term.is_set:
            yield replace(term, is_set=False), v
        if term.elem != B and all(True for _ in v):
            yield replace(term, elem=B), [True] * len(v)
    elif isinstance(term, Leaf):
        d = leaf_dom(term, big=True)
        try:
            i = d.index(v)
        except ValueError:
            i = len(d)
        for x in d[:i][:6]:
            yield term, x
        # shorter values of the same shape
        if term.kind not in ('ENUMERATED', 'OID') and isinstance(v, (str, bytes)) and len(v) > 1:
            # (an ENUMERATED name or a dotted OID cut short is not a value of the type any more)
            yield term, v[:len(v) // 2]
            yield term, v[:-1]
        if isinstance(v, tuple) and len(v) == 2 and isinstance(v[0], bytes) and v[1] > 1:
            n = v[1] // 2
            yield term, (v[0][:(n + 7) // 8], n)


def deep_rewrites(term, v, env, depth=0):
    """Local rewrites at the root and inside children (re-wrapped)."""
    yield from local_rewrites(term, v, env)
    if depth > 4:
        return
    if isinstance(term, Tag):
        yield term.inner, v
        for t2, v2 in deep_rewrites(term.inner, v, env, depth + 1):
            yield replace(term, inner=t2), v2
    elif isinstance(term, Seq) and isinstance(v, dict):
        for m in all_members(term):
            if m.name in v and not isinstance(m.t, Leaf):
                for t2, v2 in deep_rewrites(m.t, v[m.name], env, depth + 1):
                    q = m.q if m.q != 'D' else 'O'
                    yield _seq_replace(term, m.name, M(m.name, t2, q)), dict(v, **{m.name: v2})
            elif m.name in v:
                for t2, v2 in local_rewrites(m.t, v[m.name], env):
                    yield term, dict(v, **{m.name: v2})
    elif isinstance(term, Cho) and isinstance(v, tuple):
        for m in all_members(term):
            if m.name == v[0]:
                for t2, v2 in deep_rewrites(m.t, v[1], env, depth + 1):
                    def rep(ms):
                        return tuple(M(x.name, t2) if x.name == m.name else x for x in ms)
                    yield replace(term, root=rep(term.root),
                                  adds=tuple(a if isinstance(a, Grp) else (M(a.name, t2) if a.name == m.name else a)
                                             for a in term.adds)), (v[0], v2)
    elif isinstance(term, Of) and isinstance(v, list) and 0 < len(v) <= 4:
        for i, x in enumerate(v):
            for t2, v2 in deep_rewrites(term.elem, x, env, depth + 1):
                if t2 == term.elem:
                    yield term, v[:i] + [v2] + v[i + 1:]
    elif isinstance(term, Ref):
        yield env[term.name], v


def shrink_failure(failure, run_case, same=None):
    """Greedy shrink. run_case(failure, unit, name, term, value) -> None | (kind, detail, enc)."""
    unit, name, term, v = rebuild_case(failure)
    env, tags, ei = unit.env, unit.tags, unit.ext_implied
    kind = failure['kind']
    tests = [0]
    last = [None]

    def fails(t2, v2):
        if tests[0] >= MAX_TESTS:
            return False
        tests[0] += 1
        try:
            u = single_unit(t2, env, tags, ei)
            r = run_case(failure, u, 'T0', t2, v2)
        except Exception:
            return False
        if r is not None and r[0] == kind and (same is None or same(failure, r)):
            last[0] = r
            return True
        return False

    progress = True
    while progress and tests[0] < MAX_TESTS:
        progress = False
        for t2, v2 in projections(term, v, env):
            if fails(t2, v2):
                term, v, progress = t2, v2, True
                break
        if progress:
            continue
        seen = set()
        for t2, v2 in deep_rewrites(term, v, env):
            key = (t2, repr(v2))
            if key in seen or (t2 == term and repr(v2) == repr(v)):
                continue
            seen.add(key)
            if fails(t2, v2):
                term, v, progress = t2, v2, True
                break
    out = dict(failure)
    u = single_unit(term, env, tags, ei)
    out.update(case_fields(u, 'T0', term, v))
    out['spec'] = u.spec
    out['shrunk_tests'] = tests[0]
    if last[0] is not None:
        out['detail'] = last[0][1]
        out['encoded'] = last[0][2].hex()[:400] if last[0][2] is not None else None
    out['_term'] = term
    out['_value'] = v
    out['_env'] = env
    return out
