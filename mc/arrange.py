"""Arrangements of one specification and the meaning-preserving transitions
between them (C19).

An arrangement is an ordered list of modules, each an ordered list of type
assignments (terms of mc/terms.py); all modules of an arrangement share one
tagging environment (tag default, EXTENSIBILITY IMPLIED), IMPORTS are derived
from the placement of the definitions.  Its identity is its rendered text.

Transitions (each preserves the meaning of every named type by construction):
  swap      two assignments of one module trade places
  swapmod   two modules trade places in the input
  move      one definition goes to another (existing or new) module that has the
            same tag default and EXTENSIBILITY IMPLIED setting; importers follow
  inline    one occurrence of a type reference is replaced by a copy of the
            referenced definition
  extract   one inline sub-type becomes a new named type, referenced in place
  fold      one inline sub-type that equals an existing definition is replaced by
            a reference to it (the converse of inline)

Side conditions of inline / extract / fold (X.680 tagging rules):
  * a definition that starts with a tag is never placed under a tag and a tagged
    sub-type is never extracted from under a tag (no `[a] [b] T`; the parser has
    no double tagging);
  * under AUTOMATIC TAGS a tag-rooted definition is never inlined into, and a
    tagged member type never extracted from, a SEQUENCE / SET / CHOICE component
    position: a textual tag on one component switches automatic tagging of the
    whole constructor off (X.680 24.7), which would change the meaning;
  * a SEQUENCE / SET / CHOICE keeps its own automatic tagging wherever it is
    written, because every module of the arrangement has the same tag default;
  * a tag on (a reference to) a CHOICE is explicit in both spellings (X.680 31.2.7),
    so no transition changes it; terms with `[n] IMPLICIT` on a CHOICE are illegal
    and are not used as starts.
"""

from dataclasses import dataclass, replace
from .terms import (Leaf, Seq, Cho, Of, Ref, Tag, M, Grp, Module, render_module, render_type, all_members,
                    value_notation)

MAX_MODULES = 3


@dataclass(frozen=True)
class Mod:
    name: str
    types: tuple               # ((type name, term), ...)


@dataclass(frozen=True)
class Arr:
    mods: tuple
    tags: str = 'EXPLICIT'
    ei: bool = False


def env_of(arr):
    return {n: t for m in arr.mods for n, t in m.types}


def home_of(arr):
    return {n: m.name for m in arr.mods for n, _ in m.types}


def refs_in(t, acc=None):
    """Referenced type names in order of first occurrence."""
    acc = acc if acc is not None else []
    if isinstance(t, Ref):
        if t.name not in acc:
            acc.append(t.name)
    elif isinstance(t, Tag):
        refs_in(t.inner, acc)
    elif isinstance(t, Of):
        refs_in(t.elem, acc)
    elif isinstance(t, (Seq, Cho)):
        for m in all_members(t):
            refs_in(m.t, acc)
    return acc


def imports_of(arr, mod):
    home = home_of(arr)
    own = {n for n, _ in mod.types}
    out = {}
    for _, t in mod.types:
        for r in refs_in(t):
            if r not in own:
                out.setdefault(home[r], [])
                if r not in out[home[r]]:
                    out[home[r]].append(r)
    return out


def render_mod(arr, mod):
    env = env_of(arr)
    m = Module(mod.name, list(mod.types), tags=arr.tags, ext_implied=arr.ei, values=[],
               imports=imports_of(arr, mod))
    m.foreign = env
    return render_module(m)


def render(arr):
    return ''.join(render_mod(arr, m) for m in arr.mods)


def texts(arr):
    return [render_mod(arr, m) for m in arr.mods]


# ---------------------------------------------------------------------------
# positions inside a term

def positions(t, path=(), parent=None, member=None):
    """(path, sub-term, parent term, enclosing member) for the root and every sub-position."""
    yield path, t, parent, member
    if isinstance(t, Tag):
        yield from positions(t.inner, path + (('t',),), t, member)
    elif isinstance(t, Of):
        yield from positions(t.elem, path + (('e',),), t, None)
    elif isinstance(t, (Seq, Cho)):
        for m in all_members(t):
            yield from positions(m.t, path + (('m', m.name),), t, m)


def put_at(t, path, new):
    if not path:
        return new
    step, rest = path[0], path[1:]
    if step[0] == 't':
        return replace(t, inner=put_at(t.inner, rest, new))
    if step[0] == 'e':
        return replace(t, elem=put_at(t.elem, rest, new))
    name = step[1]

    def rm(m):
        return replace(m, t=put_at(m.t, rest, new)) if m.name == name else m

    def ra(a):
        return Grp(tuple(rm(m) for m in a.members)) if isinstance(a, Grp) else rm(a)
    kw = dict(root=tuple(rm(m) for m in t.root), adds=tuple(ra(a) for a in t.adds))
    if isinstance(t, Seq):
        kw['root2'] = tuple(rm(m) for m in t.root2)
    return replace(t, **kw)


def path_text(path):
    return '/'.join(s[1] if s[0] == 'm' else {'t': '[tag]', 'e': '(element)'}[s[0]] for s in path) or '(root)'


def shape_of(t):
    if isinstance(t, Leaf):
        return t.kind
    if isinstance(t, Seq):
        return 'SET' if t.is_set else 'SEQUENCE'
    if isinstance(t, Cho):
        return 'CHOICE'
    if isinstance(t, Of):
        return 'SET OF' if t.is_set else 'SEQUENCE OF'
    if isinstance(t, Tag):
        return 'TAGGED'
    if isinstance(t, Ref):
        return 'REF'
    return '?'


def _strip(t, env):
    n = 0
    while isinstance(t, (Ref, Tag)) and n < 50:
        t = env[t.name] if isinstance(t, Ref) else t.inner
        n += 1
    return t


def context(arr, path, sub, parent, member, definition):
    """What a known-finding predicate may look at: where the touched position is."""
    env = env_of(arr)
    pos = ('root' if parent is None else 'tag-inner' if isinstance(parent, Tag)
           else 'element' if isinstance(parent, Of) else 'component')
    ctx = {'position': pos, 'shape': shape_of(_strip(definition, env)), 'definition_tagged': isinstance(definition, Tag),
           'q': None, 'default': None, 'member': None, 'constructor': None}
    # the qualifier belongs to the touched position only when the position is the member type itself
    # (possibly under that member's tag)
    direct = member is not None and (path[-1][0] == 'm' or (path[-1][0] == 't' and len(path) >= 2 and path[-2][0] == 'm'))
    if direct:
        ctx['q'] = member.q
        ctx['member'] = member.name
        if member.q == 'D':
            try:
                ctx['default'] = (member.default_txt if member.default_txt is not None
                                  else value_notation(member.t, member.default, env))
            except Exception:
                ctx['default'] = repr(member.default)
    return ctx


# ---------------------------------------------------------------------------
# transitions

def _fresh_name(prefix, used):
    k = 0
    while '%s%d' % (prefix, k) in used:
        k += 1
    return '%s%d' % (prefix, k)


def _with_type(arr, mi, ti, term):
    mods = list(arr.mods)
    types = list(mods[mi].types)
    types[ti] = (types[ti][0], term)
    mods[mi] = Mod(mods[mi].name, tuple(types))
    return replace(arr, mods=tuple(mods))


def inline_allowed(arr, parent, definition):
    if isinstance(definition, Tag):
        if isinstance(parent, Tag):
            return False
        if arr.tags == 'AUTOMATIC' and isinstance(parent, (Seq, Cho)):
            return False
    return True


def extract_allowed(arr, parent, sub):
    if isinstance(sub, Ref) or parent is None:
        return False
    return inline_allowed(arr, parent, sub)


def transitions(arr, kinds=('swap', 'swapmod', 'move', 'inline', 'extract', 'fold')):
    """All one-step successors: [(op descriptor, arrangement)], in a fixed order."""
    out = []
    env = env_of(arr)
    if 'swap' in kinds:
        for mi, m in enumerate(arr.mods):
            for i in range(len(m.types)):
                for j in range(i + 1, len(m.types)):
                    ts = list(m.types)
                    ts[i], ts[j] = ts[j], ts[i]
                    mods = list(arr.mods)
                    mods[mi] = Mod(m.name, tuple(ts))
                    out.append(({'op': 'swap', 'module': m.name, 'a': m.types[i][0], 'b': m.types[j][0]},
                                replace(arr, mods=tuple(mods))))
    if 'swapmod' in kinds:
        for i in range(len(arr.mods)):
            for j in range(i + 1, len(arr.mods)):
                mods = list(arr.mods)
                mods[i], mods[j] = mods[j], mods[i]
                out.append(({'op': 'swapmod', 'a': arr.mods[i].name, 'b': arr.mods[j].name},
                            replace(arr, mods=tuple(mods))))
    if 'move' in kinds:
        for mi, m in enumerate(arr.mods):
            if len(m.types) < 2:
                continue                        # never empties a module
            for ti, (n, t) in enumerate(m.types):
                targets = [k for k in range(len(arr.mods)) if k != mi]
                if len(arr.mods) < MAX_MODULES:
                    targets.append(None)
                for k in targets:
                    mods = list(arr.mods)
                    mods[mi] = Mod(m.name, m.types[:ti] + m.types[ti + 1:])
                    if k is None:
                        to = _fresh_name('M', {x.name for x in arr.mods})
                        mods.append(Mod(to, ((n, t),)))
                    else:
                        to = arr.mods[k].name
                        mods[k] = Mod(to, arr.mods[k].types + ((n, t),))
                    out.append(({'op': 'move', 'type': n, 'from': m.name, 'to': to,
                                 'shape': shape_of(_strip(t, env))}, replace(arr, mods=tuple(mods))))
    for mi, m in enumerate(arr.mods):
        for ti, (n, t) in enumerate(m.types):
            for path, sub, parent, member in positions(t):
                if isinstance(sub, Ref) and 'inline' in kinds:
                    d = env[sub.name]
                    if inline_allowed(arr, parent, d):
                        out.append(({'op': 'inline', 'in': n, 'path': path_text(path), 'ref': sub.name,
                                     'ctx': context(arr, path, sub, parent, member, d)},
                                    _with_type(arr, mi, ti, put_at(t, path, d))))
                elif not isinstance(sub, Ref) and extract_allowed(arr, parent, sub):
                    if 'extract' in kinds:
                        new = _fresh_name('X', set(env))
                        a2 = _with_type(arr, mi, ti, put_at(t, path, Ref(new)))
                        mods = list(a2.mods)
                        mods[mi] = Mod(mods[mi].name, mods[mi].types + ((new, sub),))
                        out.append(({'op': 'extract', 'in': n, 'path': path_text(path), 'ref': new,
                                     'ctx': context(arr, path, sub, parent, member, sub)},
                                    replace(a2, mods=tuple(mods))))
                    if 'fold' in kinds:
                        for n2, t2 in env.items():
                            if t2 == sub and n2 != n:
                                out.append(({'op': 'fold', 'in': n, 'path': path_text(path), 'ref': n2,
                                             'ctx': context(arr, path, sub, parent, member, sub)},
                                            _with_type(arr, mi, ti, put_at(t, path, Ref(n2)))))
    return out


def extracted_form(term, helpers, top='T0'):
    """The start arrangement of a term: every component / element type of the top
    constructor that is written inline becomes a named type X<k> (a component's
    own tag stays on the component)."""
    used = set(helpers) | {top}
    extra = []

    def ext(t):
        if isinstance(t, Ref):
            return t
        if isinstance(t, Tag):
            return replace(t, inner=ext(t.inner))
        for n, d in extra:
            if d == t:
                return Ref(n)
        n = _fresh_name('X', used)
        used.add(n)
        extra.append((n, t))
        return Ref(n)

    if isinstance(term, (Seq, Cho)):
        def rm(m):
            return replace(m, t=ext(m.t))

        def ra(a):
            return Grp(tuple(rm(m) for m in a.members)) if isinstance(a, Grp) else rm(a)
        kw = dict(root=tuple(rm(m) for m in term.root), adds=tuple(ra(a) for a in term.adds))
        if isinstance(term, Seq):
            kw['root2'] = tuple(rm(m) for m in term.root2)
        term2 = replace(term, **kw)
    elif isinstance(term, Of):
        term2 = replace(term, elem=ext(term.elem))
    elif isinstance(term, Tag):
        term2 = replace(term, inner=ext(term.inner))
    else:
        term2 = term
    return [(top, term2)] + extra + list(helpers.items())


def implicit_on_choice(t, env):
    """`[n] IMPLICIT` written on a CHOICE (illegal ASN.1)."""
    for _, sub, _, _ in positions(t):
        if isinstance(sub, Tag) and sub.mode == 'IMPLICIT' and isinstance(_strip(sub.inner, env), Cho):
            return True
    return False
