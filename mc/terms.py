"""Type terms: the verification framework's own AST for ASN.1 types.

Nothing here imports asn1tools.  A term is rendered to ASN.1 text (the program
given to the implementation) and is also what every reference model and every
oracle is driven by.

Python values use the representation the library documents (README "Types"):
bool / int / float / None / (bytes, nbits) / bytes / 'a.b.c' / enum name /
dict / list / (alternative, value) / str / datetime.
"""

from dataclasses import dataclass, field, replace
import datetime

MIN = 'MIN'
MAX = 'MAX'


@dataclass(frozen=True)
class Rng:
    """A single-value or single-range constraint (value range or SIZE).

    lb / ub are ints, or MIN / MAX.  `ext` is the extension marker `, ...`.
    lb_sym / ub_sym: if set, the bound is rendered as that identifier (a named
    number of the type or a value reference declared in the module) — the
    semantic value stays in lb / ub.
    """
    lb: object
    ub: object
    ext: bool = False
    lb_sym: str = None
    ub_sym: str = None
    single: bool = False      # rendered as one value `(5)` instead of `(5..5)`

    def text(self):
        lo = self.lb_sym or str(self.lb)
        hi = self.ub_sym or str(self.ub)
        if self.single:
            s = lo
        else:
            s = '%s..%s' % (lo, hi)
        if self.ext:
            s += ', ...'
        return s

    def lo(self):
        return None if self.lb == MIN else self.lb

    def hi(self):
        return None if self.ub == MAX else self.ub


STRING_KINDS = ('IA5String', 'VisibleString', 'NumericString', 'PrintableString',
                'BMPString', 'UniversalString', 'UTF8String', 'GeneralString',
                'GraphicString', 'TeletexString', 'ObjectDescriptor')
KNOWN_MULT = ('IA5String', 'VisibleString', 'NumericString', 'PrintableString',
              'BMPString', 'UniversalString')
TIME_KINDS = ('UTCTime', 'GeneralizedTime', 'DATE', 'TIME-OF-DAY', 'DATE-TIME')


@dataclass(frozen=True)
class Leaf:
    kind: str                  # BOOLEAN INTEGER REAL NULL OID ENUMERATED BITSTRING OCTETSTRING <string kinds> <time kinds>
    rng: Rng = None            # INTEGER value constraint
    size: Rng = None           # SIZE constraint (strings, BIT/OCTET STRING)
    alpha: str = None          # FROM: permitted characters, in spec order
    alpha_ranges: tuple = None  # FROM given as ranges (("a","d"),...) ; alpha holds the expansion
    named: tuple = None        # INTEGER named numbers / BIT STRING named bits: ((name, int), ...)
    enum: tuple = None         # ENUMERATED root: ((name, int|None), ...)
    enum_adds: tuple = None    # ENUMERATED additions (None = not extensible; () = marker only)
    wc: str = None             # REAL: 'binary32' | 'binary64' (WITH COMPONENTS)

    def is_string(self):
        return self.kind in STRING_KINDS


@dataclass(frozen=True)
class M:
    """A SEQUENCE/SET component or a CHOICE alternative."""
    name: str
    t: object
    q: str = 'M'               # 'M' mandatory | 'O' OPTIONAL | 'D' DEFAULT
    default: object = None     # python value (library representation)
    default_txt: str = None    # value notation override


@dataclass(frozen=True)
class Grp:
    """An extension addition group [[ ... ]]."""
    members: tuple


@dataclass(frozen=True)
class Seq:
    root: tuple
    ext: bool = False
    adds: tuple = ()           # M or Grp
    root2: tuple = ()          # components after a second extension marker
    is_set: bool = False


@dataclass(frozen=True)
class Cho:
    root: tuple
    ext: bool = False
    adds: tuple = ()


@dataclass(frozen=True)
class Of:
    elem: object
    size: Rng = None
    is_set: bool = False


@dataclass(frozen=True)
class Ref:
    name: str


@dataclass(frozen=True)
class Tag:
    num: int
    inner: object
    cls: str = ''              # '' (context) | APPLICATION | PRIVATE | UNIVERSAL
    mode: str = ''             # '' (module default) | IMPLICIT | EXPLICIT


@dataclass
class Module:
    name: str
    types: list                # [(type name, term)] in textual order
    tags: str = 'EXPLICIT'     # EXPLICIT | IMPLICIT | AUTOMATIC
    ext_implied: bool = False
    values: list = field(default_factory=list)      # [(name, type text, value text)]
    imports: dict = field(default_factory=dict)     # {from module: [symbols]}

    def env(self):
        return dict(self.types)


# ---------------------------------------------------------------------------
# rendering

def _q(s):
    return '"' + s.replace('"', '""') + '"'


def render_type(t, env=None):
    if isinstance(t, Leaf):
        return _render_leaf(t)
    if isinstance(t, Ref):
        return t.name
    if isinstance(t, Tag):
        s = '[' + (t.cls + ' ' if t.cls else '') + str(t.num) + ']'
        if t.mode:
            s += ' ' + t.mode
        return s + ' ' + render_type(t.inner, env)
    if isinstance(t, Of):
        kw = 'SET' if t.is_set else 'SEQUENCE'
        if t.size is not None:
            return '%s (SIZE (%s)) OF %s' % (kw, t.size.text(), render_type(t.elem, env))
        return '%s OF %s' % (kw, render_type(t.elem, env))
    if isinstance(t, Seq):
        kw = 'SET' if t.is_set else 'SEQUENCE'
        parts = [render_member(m, env) for m in t.root]
        if t.ext:
            parts.append('...')
            for a in t.adds:
                if isinstance(a, Grp):
                    parts.append('[[ ' + ', '.join(render_member(m, env) for m in a.members) + ' ]]')
                else:
                    parts.append(render_member(a, env))
            if t.root2:
                parts.append('...')
                parts.extend(render_member(m, env) for m in t.root2)
        return kw + ' { ' + ', '.join(parts) + ' }'
    if isinstance(t, Cho):
        parts = [render_member(m, env) for m in t.root]
        if t.ext:
            parts.append('...')
            for a in t.adds:
                if isinstance(a, Grp):
                    parts.append('[[ ' + ', '.join(render_member(m, env) for m in a.members) + ' ]]')
                else:
                    parts.append(render_member(a, env))
        return 'CHOICE { ' + ', '.join(parts) + ' }'
    raise TypeError(t)


def render_member(m, env=None):
    s = m.name + ' ' + render_type(m.t, env)
    if m.q == 'O':
        s += ' OPTIONAL'
    elif m.q == 'D':
        s += ' DEFAULT ' + (m.default_txt if m.default_txt is not None
                            else value_notation(m.t, m.default, env or {}))
    return s


def value_notation(t, v, env):
    """X.680 value notation of python value v of type t."""
    t = resolve(t, env)
    if isinstance(t, Leaf):
        k = t.kind
        if k == 'BOOLEAN':
            return 'TRUE' if v else 'FALSE'
        if k == 'INTEGER':
            return str(v)
        if k == 'NULL':
            return 'NULL'
        if k == 'ENUMERATED':
            return v
        if k == 'REAL':
            return repr(float(v))
        if k == 'OID':
            return '{ ' + ' '.join(v.split('.')) + ' }'
        if k == 'BITSTRING':
            data, n = v
            bits = ''.join('{:08b}'.format(b) for b in data)[:n]
            return "'" + bits + "'B"
        if k == 'OCTETSTRING':
            return "'" + bytes(v).hex().upper() + "'H"
        if k in STRING_KINDS:
            return _q(v)
        raise ValueError('no value notation for ' + k)
    if isinstance(t, Seq):
        return '{ ' + ', '.join(m.name + ' ' + value_notation(m.t, v[m.name], env)
                                for m in all_members(t) if m.name in v) + ' }'
    if isinstance(t, Of):
        return '{ ' + ', '.join(value_notation(t.elem, x, env) for x in v) + ' }'
    if isinstance(t, Cho):
        m = [m for m in all_members(t) if m.name == v[0]][0]
        return v[0] + ' : ' + value_notation(m.t, v[1], env)
    raise TypeError(t)


def _render_leaf(l):
    k = l.kind
    if k == 'INTEGER':
        s = 'INTEGER'
        if l.named:
            s += ' { ' + ', '.join('%s(%d)' % nv for nv in l.named) + ' }'
        if l.rng is not None:
            s += ' (' + l.rng.text() + ')'
        return s
    if k == 'ENUMERATED':
        def item(nv):
            return nv[0] if nv[1] is None else '%s(%d)' % nv
        parts = [item(nv) for nv in l.enum]
        if l.enum_adds is not None:
            parts.append('...')
            parts.extend(item(nv) for nv in l.enum_adds)
        return 'ENUMERATED { ' + ', '.join(parts) + ' }'
    if k == 'REAL':
        if l.wc == 'binary32':
            return ('REAL (WITH COMPONENTS { mantissa (-16777215..16777215), '
                    'base (2), exponent (-149..104) })')
        if l.wc == 'binary64':
            return ('REAL (WITH COMPONENTS { mantissa (-9007199254740991..9007199254740991), '
                    'base (2), exponent (-1074..971) })')
        return 'REAL'
    if k in ('BOOLEAN', 'NULL') or k in TIME_KINDS:
        return k
    if k == 'OID':
        return 'OBJECT IDENTIFIER'
    if k in ('BITSTRING', 'OCTETSTRING'):
        s = 'BIT STRING' if k == 'BITSTRING' else 'OCTET STRING'
        if l.named:
            s += ' { ' + ', '.join('%s(%d)' % nv for nv in l.named) + ' }'
        if l.size is not None:
            s += ' (SIZE (' + l.size.text() + '))'
        return s
    if k in STRING_KINDS:
        s = k
        if l.alpha is not None:
            if l.alpha_ranges:
                fr = ' | '.join('%s..%s' % (_q(a), _q(b)) for a, b in l.alpha_ranges)
            else:
                fr = _q(l.alpha)
            s += ' (FROM (' + fr + '))'
        if l.size is not None:
            s += ' (SIZE (' + l.size.text() + '))'
        return s
    raise ValueError(k)


def render_module(mod):
    hdr = mod.name + ' DEFINITIONS'
    if mod.tags != 'EXPLICIT' or getattr(mod, 'explicit_keyword', False):
        hdr += ' ' + mod.tags + ' TAGS'
    if mod.ext_implied:
        hdr += ' EXTENSIBILITY IMPLIED'
    env = dict(mod.types)
    env.update(getattr(mod, 'foreign', {}) or {})
    out = [hdr + ' ::= BEGIN']
    if mod.imports:
        out.append('IMPORTS ' + ' '.join('%s FROM %s' % (', '.join(syms), frm)
                                         for frm, syms in mod.imports.items()) + ';')
    for name, ttxt, vtxt in mod.values:
        out.append('%s %s ::= %s' % (name, ttxt, vtxt))
    for name, t in mod.types:
        out.append('%s ::= %s' % (name, render_type(t, env)))
    out.append('END')
    return '\n'.join(out) + '\n'


# ---------------------------------------------------------------------------
# helpers on terms

def resolve(t, env):
    """Strip Ref and Tag wrappers down to the structural type."""
    n = 0
    while True:
        if isinstance(t, Ref):
            t = env[t.name]
        elif isinstance(t, Tag):
            t = t.inner
        else:
            return t
        n += 1
        if n > 50:
            raise RecursionError('reference cycle')


def all_members(t):
    """All components of a Seq (root, additions flattened, root2) or alternatives of a Cho."""
    out = list(t.root)
    for a in t.adds:
        if isinstance(a, Grp):
            out.extend(a.members)
        else:
            out.append(a)
    if isinstance(t, Seq):
        out.extend(t.root2)
    return out


def subterms(t):
    yield t
    if isinstance(t, (Seq, Cho)):
        for m in all_members(t):
            yield from subterms(m.t)
    elif isinstance(t, Of):
        yield from subterms(t.elem)
    elif isinstance(t, Tag):
        yield from subterms(t.inner)


def has_kind(t, env, pred, _seen=None):
    _seen = _seen or set()
    for s in subterms(t):
        if isinstance(s, Ref):
            if s.name in _seen:
                continue
            _seen.add(s.name)
            if has_kind(env[s.name], env, pred, _seen):
                return True
        elif pred(s):
            return True
    return False


def enum_numbers(l):
    """Resolve ENUMERATED item numbers (X.680 clause 20): explicit numbers are
    kept; root identifiers get successive integers from 0 skipping numbers the
    root uses explicitly; an addition identifier gets the smallest value that is
    unused so far and larger than every earlier addition."""
    used = {n for _, n in l.enum if n is not None}
    root = []
    nxt = 0
    for name, n in l.enum:
        if n is None:
            while nxt in used:
                nxt += 1
            n = nxt
            used.add(n)
        root.append((name, n))
    adds = None
    if l.enum_adds is not None:
        adds = []
        floor = 0
        for name, n in l.enum_adds:
            if n is None:
                n = floor
                while n in used:
                    n += 1
            used.add(n)
            floor = n + 1
            adds.append((name, n))
    return root, adds


def term_json(t):
    """JSON-able dump of a term (for replay files / evidence samples)."""
    if isinstance(t, Leaf):
        return render_type(t)
    return render_type(t)
