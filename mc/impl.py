"""Binding to the implementation under test: imports asn1tools from the tree
named by VERIF_REPO (default /repo) — always the current working tree, never an
installed copy."""

import os
import sys
import hashlib

REPO = os.path.abspath(os.environ.get('VERIF_REPO', '/repo'))

if sys.path[0] != REPO:
    sys.path.insert(0, REPO)
os.environ.setdefault('ASN1TOOLS_VERIF', '1')

import asn1tools  # noqa: E402

if not os.path.abspath(asn1tools.__file__).startswith(REPO + os.sep):
    raise SystemExit('machinery error: asn1tools imported from %s, expected under %s'
                     % (asn1tools.__file__, REPO))

from asn1tools.codecs import (EncodeError as CEncodeError, DecodeError as CDecodeError,  # noqa: E402,F401
                              ConstraintsError as CConstraintsError)

BINARY = ('ber', 'der', 'per', 'uper', 'oer')
TEXT = ('jer', 'xer')
ALL_CODECS = BINARY + TEXT + ('gser',)


def tree_hash():
    h = hashlib.sha256()
    base = os.path.join(REPO, 'asn1tools')
    for root, dirs, files in sorted(os.walk(base)):
        dirs.sort()
        for f in sorted(files):
            if f.endswith('.py'):
                p = os.path.join(root, f)
                h.update(os.path.relpath(p, base).encode())
                with open(p, 'rb') as fh:
                    h.update(fh.read())
    return h.hexdigest()[:16]


def git_head():
    try:
        import subprocess
        return subprocess.run(['git', '-C', REPO, 'rev-parse', '--short', 'HEAD'],
                              capture_output=True, text=True, timeout=10).stdout.strip()
    except Exception:
        return 'unknown'


def parse(text):
    return asn1tools.parse_string(text)


def compile_text(text, codec, numeric_enums=False):
    return asn1tools.compile_dict(asn1tools.parse_string(text), codec, None, numeric_enums)


def compile_parsed(text, codecs, numeric_enums=False):
    """Parse once per codec (compile_dict mutates the dict; a fresh parse per
    compile keeps units independent of C13's subject)."""
    import copy
    d = asn1tools.parse_string(text)
    out = {}
    for c in codecs:
        out[c] = asn1tools.compile_dict(copy.deepcopy(d), c, None, numeric_enums)
    return out


def compile_tops(unit, codecs, numerics=(False,)):
    """Compile every top-level type of a unit for every codec and numeric_enums
    setting.  Returns {(numeric, codec): [(spec, type name) | exception, ...]}
    indexed like unit.tops.  The module text is parsed once; each compile gets a
    deep copy of the parsed dictionary.  When a compile of the whole module is
    rejected the set of top-level types is bisected (by pruning the copy of the
    parsed dictionary) so that one rejected type does not take its neighbours
    with it."""
    import copy
    names = [n for n, _, _ in unit.tops]
    out = {(ne, c): [None] * len(names) for ne in numerics for c in codecs}
    try:
        parsed = asn1tools.parse_string(unit.spec)
    except Exception as e:
        for k in out:
            out[k] = [e] * len(names)
        return out
    modname = list(parsed)[0]
    topset = set(names)

    def pruned(indices):
        d = copy.deepcopy(parsed)
        keep = {names[i] for i in indices}
        types = d[modname]['types']
        for n in list(types):
            if n in topset and n not in keep:
                del types[n]
        return d

    def rec(indices, ne, c, whole):
        try:
            spec = asn1tools.compile_dict(copy.deepcopy(parsed) if whole else pruned(indices), c, None, ne)
        except Exception as e:
            if len(indices) == 1:
                out[(ne, c)][indices[0]] = e
                return
            h = len(indices) // 2
            rec(indices[:h], ne, c, False)
            rec(indices[h:], ne, c, False)
        else:
            for i in indices:
                out[(ne, c)][i] = (spec, names[i])

    for ne in numerics:
        for c in codecs:
            rec(list(range(len(names))), ne, c, True)
    return out
