"""Known-finding predicates for C09 / C10 (generated C code).

Every predicate looks at the *minimal* (shrunk) case: the failure kind, the
codec, and the shape of the type term.  `only(...)` demands that the term holds
nothing but the named construct plus BOOLEAN / container scaffolding, so a
different defect in a type that merely also contains the construct still
reaches the report.
"""

from .terms import Leaf, Seq, Cho, Of, Ref, Tag, Grp, all_members, subterms

ENC_DEC = ('encode-mismatch', 'decode-mismatch', 'decode-failed', 'encode-failed')

C_KEYWORDS = {'auto', 'break', 'case', 'char', 'const', 'continue', 'default', 'do', 'double', 'else', 'enum',
              'extern', 'float', 'for', 'goto', 'if', 'inline', 'int', 'long', 'register', 'restrict', 'return',
              'short', 'signed', 'sizeof', 'static', 'struct', 'switch', 'typedef', 'union', 'unsigned', 'void',
              'volatile', 'while'}


def _term(f):
    return f.get('_term'), f.get('_env') or {}


def nodes(t, env, _seen=None):
    """All sub-terms, following references once."""
    _seen = _seen if _seen is not None else set()
    for s in subterms(t):
        if isinstance(s, Ref):
            if s.name in env and s.name not in _seen:
                _seen.add(s.name)
                yield from nodes(env[s.name], env, _seen)
        else:
            yield s


def leaves(t, env):
    return [n for n in nodes(t, env) if isinstance(n, Leaf)]


def members(t, env):
    out = []
    for n in nodes(t, env):
        if isinstance(n, (Seq, Cho)):
            out.extend(all_members(n))
    return out


def resolve(t, env):
    n = 0
    while isinstance(t, (Ref, Tag)) and n < 30:
        t = env.get(t.name) if isinstance(t, Ref) else t.inner
        n += 1
    return t


def plain_leaf(l):
    """In-subset leaf without any feature of its own."""
    if l.kind in ('BOOLEAN', 'NULL'):
        return True
    if l.kind == 'INTEGER':
        return (l.rng is not None and not l.rng.ext and l.rng.lo() is not None and l.rng.hi() is not None
                and 0 <= l.rng.lo() and l.rng.hi() <= 255)
    return False


def plain_containers(t, env, allow_seq_ext=True, allow_cho_ext=False, allow_adds=False):
    for n in nodes(t, env):
        if isinstance(n, Cho) and n.ext and not allow_cho_ext:
            return False
        if isinstance(n, (Seq, Cho)) and n.adds and not allow_adds:
            return False
        if isinstance(n, Seq) and (n.root2 or n.is_set):
            return False
        if isinstance(n, Seq) and n.ext and not allow_seq_ext:
            return False
        if isinstance(n, Of) and (n.size is None or n.size.hi() is None or n.size.ext or n.is_set):
            return False
    return True


def no_defaults(t, env, except_pred=None):
    for m in members(t, env):
        if m.q == 'D' and not (except_pred and except_pred(m)):
            return False
    return True


def no_keywords(t, env):
    return not any(m.name in C_KEYWORDS for m in members(t, env))


def only(f, leaf_pred, **kw):
    """The term's leaves are all plain except at least one satisfying leaf_pred;
    containers are plain (modulo kw); no DEFAULT members; no keyword names."""
    t, env = _term(f)
    if t is None:
        return False
    ls = leaves(t, env)
    special = [l for l in ls if leaf_pred(l)]
    if not special:
        return False
    if any(not (plain_leaf(l) or leaf_pred(l)) for l in ls):
        return False
    dflt = kw.pop('defaults', None)
    return plain_containers(t, env, **kw) and no_defaults(t, env, dflt) and no_keywords(t, env)


def all_plain(f, **kw):
    t, env = _term(f)
    if t is None:
        return False
    dflt = kw.pop('defaults', None)
    return (all(plain_leaf(l) for l in leaves(t, env)) and plain_containers(t, env, **kw)
            and no_defaults(t, env, dflt) and no_keywords(t, env))


# ---------------------------------------------------------------------------
# shared by both generators (properties C09 and C10)

def _signed_width_too_small(l):
    """INTEGER (lo..hi) with lo < 0 whose C type is chosen from lo alone for
    the signed side and from hi as if unsigned: hi does not fit the signed type."""
    if l.kind != 'INTEGER' or l.rng is None or l.rng.ext or l.rng.lo() is None or l.rng.hi() is None:
        return False
    lo, hi = l.rng.lo(), l.rng.hi()
    if lo >= 0:
        return False
    for w in (8, 16, 32, 64):
        lo_fits = lo >= -(1 << (w - 1))
        hi_fits_unsigned = hi < (1 << w)
        if lo_fits and hi_fits_unsigned:
            return hi > (1 << (w - 1)) - 1        # the generator picks int<w>_t; hi needs more
    return False


def c_signed_type_too_narrow(f):
    """type_length() sizes the signed type from `minimum` and the unsigned bound from `maximum`:
    INTEGER (-128..128) becomes int8_t."""
    if f['kind'] not in ENC_DEC + ('value-not-representable', 'v2-decode-failed', 'v2-decode-mismatch'):
        return False
    return only(f, _signed_width_too_small, defaults=lambda m: True, allow_cho_ext=True,
                allow_adds=f['kind'].startswith('v2-'))


def c_default_bit_string(f):
    """DEFAULT on a BIT STRING member: the generated code does not compile."""
    if f['kind'] != 'c-compile-error':
        return False
    t, env = _term(f)
    if t is None:
        return False

    def is_bits(m):
        r = resolve(m.t, env)
        return isinstance(r, Leaf) and r.kind == 'BITSTRING'
    ds = [m for m in members(t, env) if m.q == 'D']
    return bool(ds) and all(is_bits(m) for m in ds) and no_keywords(t, env) and \
        not any(l.kind == 'REAL' for l in leaves(t, env))


def c_default_fixed_octet_string(f):
    """DEFAULT on a fixed-size OCTET STRING member: the generated code refers to a `.length` member that a
    fixed-size buffer struct does not have."""
    if f['kind'] != 'c-compile-error' or 'no member named' not in f.get('detail', ''):
        return False
    t, env = _term(f)
    if t is None:
        return False

    def is_fixed_oct(m):
        r = resolve(m.t, env)
        return (isinstance(r, Leaf) and r.kind == 'OCTETSTRING' and r.size is not None
                and r.size.lo() == r.size.hi())
    ds = [m for m in members(t, env) if m.q == 'D']
    return bool(ds) and all(is_fixed_oct(m) for m in ds) and no_keywords(t, env) and \
        not any(l.kind == 'REAL' for l in leaves(t, env))


def c_keyword_member_name(f):
    """A component identifier that is a C keyword is emitted verbatim as a struct member name."""
    if f['kind'] != 'c-compile-error':
        return False
    t, env = _term(f)
    if t is None:
        return False
    return any(m.name in C_KEYWORDS for m in members(t, env)) and no_defaults(t, env) and \
        all(plain_leaf(l) for l in leaves(t, env))


# ---------------------------------------------------------------------------
# UPER generator

def _enum_ext(l):
    return l.kind == 'ENUMERATED' and l.enum_adds is not None


def uper_enumerated_extension_marker(f):
    """UPER: ENUMERATED with an extension marker is accepted; the extension bit is not generated and additions
    get no enumerator."""
    if f.get('codec') != 'uper' or f['kind'] not in ENC_DEC + ('value-not-representable', 'c-compile-error'):
        return False
    return only(f, _enum_ext, defaults=lambda m: True)


def uper_choice_extension_marker(f):
    """UPER: CHOICE with an extension marker is accepted; the extension bit is not generated and additions
    get no alternative."""
    if f.get('codec') != 'uper' or f['kind'] not in ENC_DEC + ('value-not-representable',):
        return False
    t, env = _term(f)
    if t is None:
        return False
    if not any(isinstance(n, Cho) and n.ext for n in nodes(t, env)):
        return False
    return all_plain(f, allow_cho_ext=True, allow_adds=True) and \
        not any(isinstance(n, Seq) and n.adds for n in nodes(t, env))


def uper_real_accepted(f):
    """UPER: REAL is accepted and no member and no code is generated for it."""
    if f.get('codec') != 'uper' or f['kind'] not in ENC_DEC + ('header-shape', 'c-compile-error',
                                                               'value-not-representable'):
        return False
    return only(f, lambda l: l.kind == 'REAL', defaults=lambda m: True)


def uper_sequence_additions(f):
    """UPER: SEQUENCE with extension additions is accepted; the encoder refuses a present addition (-EINVAL), the
    decoder refuses the extension bit and never writes the is_<m>_addition_present members, which the encoder
    then reads."""
    if f.get('codec') != 'uper':
        return False
    t, env = _term(f)
    if t is None:
        return False
    if not any(isinstance(n, Seq) and n.adds for n in nodes(t, env)):
        return False
    if not all_plain(f, allow_adds=True, allow_cho_ext=False):
        return False
    if any(isinstance(n, Cho) and n.adds for n in nodes(t, env)):
        return False
    if f['kind'] == 'sanitizer':
        return "not a valid value for type 'bool'" in f.get('detail', '')
    if f['kind'] == 'decode-mismatch':
        # the is_<m>_addition_present member the decoder never writes, read back as garbage
        return '<bad-flag>' in (f.get('detail') or '')
    return f['kind'] in ('encode-failed', 'decode-failed', 'reencode-failed')


def uper_named_bit_constants(f):
    """UPER: the named-bit constants of a BIT STRING whose size is not a multiple of 8 are positioned for the
    octet-aligned (OER) layout, the UPER functions use the n-bit number."""
    if f.get('codec') != 'uper' or f['kind'] != 'named-bit-constant':
        return False
    t, env = _term(f)
    return isinstance(t, Leaf) and t.kind == 'BITSTRING' and bool(t.named) and t.size.lo() % 8 != 0


def _uper_int_helper_mismatch(l):
    if l.kind != 'INTEGER' or l.rng is None or l.rng.ext or l.rng.lo() is None or l.rng.hi() is None:
        return False
    lo, hi = l.rng.lo(), l.rng.hi()
    bits = (hi - lo).bit_length()
    return (bits in (8, 16, 32, 64) and lo in (-128, -32768, -2**31, -2**63) and lo != -(1 << (bits - 1)))


def uper_integer_fixed_width_helper(f):
    """UPER: format_integer_inner picks encoder_append_int<N> when the field width is one of 8/16/32/64 and the
    minimum is one of 0/-128/-32768/-2^31/-2^63, without requiring that the two belong together:
    INTEGER (-32768..-32513) (8 bits) is written with encoder_append_int16 (16 bits, offset 32768)."""
    if f.get('codec') != 'uper' or f['kind'] not in ENC_DEC + ('value-not-representable',):
        return False
    return only(f, _uper_int_helper_mismatch, defaults=lambda m: True)


def _int_range_needs_64_bits_signed(l):
    if l.kind != 'INTEGER' or l.rng is None or l.rng.ext or l.rng.lo() is None or l.rng.hi() is None:
        return False
    lo, hi = l.rng.lo(), l.rng.hi()
    return lo < 0 and hi - lo >= (1 << 63)


def uper_integer_64_bit_range_signed_overflow(f):
    """UPER C generator: INTEGER (lo..hi) with lo < 0 and a range that needs the full 64 bits: the generated
    decoder adds the minimum to the 64-bit field as a signed operation (and the encoder subtracts it), so a field
    value near 2^64 is signed integer overflow - undefined behaviour reported by UBSan on hostile input and on the
    largest valid values."""
    if f.get('codec') != 'uper' or f.get('kind') != 'sanitizer':
        return False
    if 'signed integer overflow' not in (f.get('detail') or ''):
        return False
    t, env = _term(f)
    if t is None:
        return False
    ints = [l for l in leaves(t, env) if l.kind == 'INTEGER']
    return bool(ints) and all(_int_range_needs_64_bits_signed(l) or plain_leaf(l) for l in ints) \
        and any(_int_range_needs_64_bits_signed(l) for l in ints)
