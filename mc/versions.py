"""The version graph of C07 as a transition system on type terms, and the
projection pi that is the model of "decode a newer encoding with an older
specification".

Nothing here imports asn1tools.

States are type terms.  A transition is one *legal extension step* (X.680
extensibility rules) at one extensible node of the term:

  SEQUENCE / SET with a marker   add one component (mandatory / OPTIONAL / DEFAULT)
                                 at the end of the extension additions, or add
                                 one `[[ group ]]` there
  CHOICE with a marker           add one alternative at the end of the additions
  ENUMERATED with a marker       add one item (next number, or a far number)
  INTEGER (lb..ub, ...)          widen: `(lb..ub, ..., ub+1..ub+300)`
  SIZE (lb..ub, ...)             widen: `(SIZE (lb..ub, ..., ub+1..ub+4))`

Everything a step adds is *marked with the generation of the step* so that the
older version can be recovered from the newer term alone (this is what makes a
(new term, generation, value) triple a self-contained, shrinkable case):

  generation 1 components / alternatives / items are named p<n>, generation 2
  ones q<n>; a widened range is a WRng whose `gens` lists the generations of its
  widening steps.  strip(t, g) removes everything of generation >= g.

Names used by the base alphabets (m0, x0, oa, ia, ca, sa, ra, a, b, x, e0 ...)
never have the form p<digits> / q<digits>.
"""

from dataclasses import dataclass, replace, fields
from .terms import (Leaf, Rng, Seq, Cho, Of, Ref, Tag, M, Grp, MIN, MAX, all_members)
from . import absval

GEN_PREFIX = {1: 'p', 2: 'q'}
INT_CHUNK = 300
SIZE_CHUNK = 4


# ---------------------------------------------------------------------------
# widened ranges

@dataclass(frozen=True)
class WRng(Rng):
    """An extensible range with additional values after the marker.  The root
    (lb, ub) is unchanged; every entry of `gens` extends the additional range by
    one chunk (upwards, or downwards when the root has no upper bound)."""
    gens: tuple = ()
    chunk: int = INT_CHUNK

    def extra(self):
        n = len(self.gens) * self.chunk
        if self.ub != MAX:
            return self.ub + 1, self.ub + n
        return self.lb - n, self.lb - 1

    def text(self):
        lo = self.lb_sym or str(self.lb)
        hi = self.ub_sym or str(self.ub)
        s = lo if self.single else '%s..%s' % (lo, hi)
        a, b = self.extra()
        return s + ', ..., %d..%d' % (a, b)


def can_widen(r, chunk):
    if r is None or not r.ext:
        return False
    if r.ub != MAX:
        return True
    if r.lb == MIN:
        return False
    if chunk == SIZE_CHUNK:
        # SIZE (lb..MAX, ...): room below only when lb is large enough
        return r.lb - SIZE_CHUNK * 2 >= 0
    return True


def widen(r, gen, chunk):
    if isinstance(r, WRng):
        return replace(r, gens=r.gens + (gen,))
    kw = {f.name: getattr(r, f.name) for f in fields(Rng)}
    kw['ext'] = True
    return WRng(gens=(gen,), chunk=chunk, **kw)


def strip_rng(r, g):
    if isinstance(r, WRng):
        gens = tuple(x for x in r.gens if x < g)
        if gens:
            return replace(r, gens=gens)
        return Rng(**{f.name: getattr(r, f.name) for f in fields(Rng)})
    return r


# ---------------------------------------------------------------------------
# generations

def gen_of(name):
    if len(name) > 1 and name[1:].isdigit():
        if name[0] == 'p':
            return 1
        if name[0] == 'q':
            return 2
    return 0


def strip(t, g):
    """The version of term t that lacks every addition of generation >= g."""
    if isinstance(t, Tag):
        return replace(t, inner=strip(t.inner, g))
    if isinstance(t, Of):
        return replace(t, elem=strip(t.elem, g), size=strip_rng(t.size, g))
    if isinstance(t, Leaf):
        kw = {}
        if t.enum_adds is not None:
            kw['enum_adds'] = tuple(it for it in t.enum_adds if not (0 < gen_of(it[0]) >= g))
        if t.rng is not None:
            kw['rng'] = strip_rng(t.rng, g)
        if t.size is not None:
            kw['size'] = strip_rng(t.size, g)
        return replace(t, **kw) if kw else t
    if isinstance(t, (Seq, Cho)):
        def keep(m):
            return not (0 < gen_of(m.name) >= g)

        def sm(m):
            return replace(m, t=strip(m.t, g))
        adds = []
        for a in t.adds:
            if isinstance(a, Grp):
                ms = tuple(sm(m) for m in a.members if keep(m))
                if ms:
                    adds.append(Grp(ms))
            elif keep(a):
                adds.append(sm(a))
        kw = dict(root=tuple(sm(m) for m in t.root if keep(m)), adds=tuple(adds))
        if isinstance(t, Seq):
            kw['root2'] = tuple(sm(m) for m in t.root2 if keep(m))
        return replace(t, **kw)
    return t


def max_gen(t):
    """Largest generation mark in t (0 = nothing added)."""
    g = 0
    if isinstance(t, Tag):
        return max_gen(t.inner)
    if isinstance(t, Of):
        g = max_gen(t.elem)
        if isinstance(t.size, WRng):
            g = max(g, max(t.size.gens))
        return g
    if isinstance(t, Leaf):
        for it in t.enum_adds or ():
            g = max(g, gen_of(it[0]))
        for r in (t.rng, t.size):
            if isinstance(r, WRng):
                g = max(g, max(r.gens))
        return g
    if isinstance(t, (Seq, Cho)):
        for m in all_members(t):
            g = max(g, gen_of(m.name), max_gen(m.t))
        return g
    return 0


def inline(t, env, _stack=()):
    """Replace type references by their definitions (the step relation works on
    closed terms; recursive references are left alone and have no steps)."""
    if isinstance(t, Ref):
        if t.name in _stack or t.name not in env:
            return t
        return inline(env[t.name], env, _stack + (t.name,))
    if isinstance(t, Tag):
        return replace(t, inner=inline(t.inner, env, _stack))
    if isinstance(t, Of):
        return replace(t, elem=inline(t.elem, env, _stack))
    if isinstance(t, (Seq, Cho)):
        def im(m):
            return replace(m, t=inline(m.t, env, _stack))
        adds = tuple(Grp(tuple(im(m) for m in a.members)) if isinstance(a, Grp) else im(a) for a in t.adds)
        kw = dict(root=tuple(im(m) for m in t.root), adds=adds)
        if isinstance(t, Seq):
            kw['root2'] = tuple(im(m) for m in t.root2)
        return replace(t, **kw)
    return t


# ---------------------------------------------------------------------------
# the step alphabet

B = Leaf('BOOLEAN')
U8 = Leaf('INTEGER', rng=Rng(0, 255))
OCT = Leaf('OCTETSTRING')
NUL = Leaf('NULL')
NSEQ = Seq((M('na', B), M('nb', U8, 'O')), ext=True)
NCHO = Cho((M('ca', B),), ext=True)

# letter -> (type, DEFAULT value or None)
LETTERS = {
    'bool': (B, True),
    'u8': (U8, 7),
    'oct': (OCT, b'\x01\x02'),
    'null': (NUL, None),
    'seq': (NSEQ, None),
    'cho': (NCHO, None),
}
LETTER_ORDER = ('bool', 'u8', 'oct', 'null', 'seq', 'cho')

SEQ_OPS_FULL = (['add-M:' + l for l in LETTER_ORDER] + ['add-O:' + l for l in LETTER_ORDER]
                + ['add-D:' + l for l in LETTER_ORDER if LETTERS[l][1] is not None]
                + ['group:1', 'group:2', 'group:opt', 'add2:oo'])
# reduced alphabet: every qualifier, every letter, one group -- each once
SEQ_OPS_REDUCED = ['add-M:bool', 'add-O:oct', 'add-D:u8', 'add-M:seq', 'add-O:cho', 'add-M:null', 'group:2', 'add2:oo']
CHO_OPS_FULL = ['alt:' + l for l in LETTER_ORDER]
CHO_OPS_REDUCED = ['alt:bool', 'alt:oct', 'alt:seq', 'alt:null']
ENUM_OPS = ['item:next', 'item:far']
ENUM_OPS_REDUCED = ['item:next']


def node_kind(t):
    if isinstance(t, Seq):
        return 'SET' if t.is_set else 'SEQUENCE'
    if isinstance(t, Cho):
        return 'CHOICE'
    if isinstance(t, Of):
        return 'OF'
    if isinstance(t, Leaf):
        return t.kind
    return type(t).__name__


def ops_at(t, reduced=False):
    """Legal extension steps at node t itself (not inside it)."""
    out = []
    if isinstance(t, Seq) and t.ext:
        out += SEQ_OPS_REDUCED if reduced else SEQ_OPS_FULL
    elif isinstance(t, Cho) and t.ext:
        if not any(isinstance(a, Grp) for a in t.adds):
            out += CHO_OPS_REDUCED if reduced else CHO_OPS_FULL
    elif isinstance(t, Leaf):
        if t.kind == 'ENUMERATED' and t.enum_adds is not None:
            out += ENUM_OPS_REDUCED if reduced else ENUM_OPS
        if t.kind == 'INTEGER' and can_widen(t.rng, INT_CHUNK):
            out.append('widen:int')
        if t.size is not None and can_widen(t.size, SIZE_CHUNK):
            out.append('widen:size')
    elif isinstance(t, Of):
        if t.size is not None and can_widen(t.size, SIZE_CHUNK):
            out.append('widen:size')
    return out


def nodes(t, path=()):
    """(path, node) for every node of t, Tag wrappers transparent.  Path keys are
    member names, '*' for the element of SEQUENCE OF / SET OF."""
    while isinstance(t, Tag):
        t = t.inner
    yield path, t
    if isinstance(t, (Seq, Cho)):
        for m in all_members(t):
            yield from nodes(m.t, path + (m.name,))
    elif isinstance(t, Of):
        yield from nodes(t.elem, path + ('*',))


def rewrite(t, path, fn):
    if isinstance(t, Tag):
        return replace(t, inner=rewrite(t.inner, path, fn))
    if not path:
        return fn(t)
    key, rest = path[0], path[1:]
    if key == '*':
        return replace(t, elem=rewrite(t.elem, rest, fn))

    def rm(m):
        return replace(m, t=rewrite(m.t, rest, fn)) if m.name == key else m
    adds = tuple(Grp(tuple(rm(m) for m in a.members)) if isinstance(a, Grp) else rm(a) for a in t.adds)
    kw = dict(root=tuple(rm(m) for m in t.root), adds=adds)
    if isinstance(t, Seq):
        kw['root2'] = tuple(rm(m) for m in t.root2)
    return replace(t, **kw)


def _fresh(t, gen, k=1):
    used = {m.name for m in all_members(t)}
    out = []
    n = len(used)
    while len(out) < k:
        name = '%s%d' % (GEN_PREFIX[gen], n)
        n += 1
        if name not in used:
            out.append(name)
    return out


def _member(name, qual, letter):
    t, d = LETTERS[letter]
    if qual == 'D':
        return M(name, t, 'D', default=d)
    return M(name, t, qual)


def apply_op(node, op, gen):
    """The node after extension step `op` of generation `gen`."""
    kind, _, arg = op.partition(':')
    if kind in ('add-M', 'add-O', 'add-D'):
        name, = _fresh(node, gen)
        return replace(node, adds=node.adds + (_member(name, kind[-1], arg),))
    if kind == 'add2':
        # two OPTIONAL additions in one step: the older version then meets every presence pattern of two unknown
        # additions (present + absent, absent + present, both) after its own last addition
        n1, n2 = _fresh(node, gen, 2)
        return replace(node, adds=node.adds + (M(n1, B, 'O'), M(n2, OCT, 'O')))
    if kind == 'group':
        if arg == '1':
            n1, = _fresh(node, gen)
            g = Grp((M(n1, B),))
        elif arg == '2':
            n1, n2 = _fresh(node, gen, 2)
            g = Grp((M(n1, U8), M(n2, B, 'O')))
        else:
            n1, n2 = _fresh(node, gen, 2)
            g = Grp((M(n1, OCT, 'O'), M(n2, NUL, 'O')))
        return replace(node, adds=node.adds + (g,))
    if kind == 'alt':
        name, = _fresh(node, gen)
        return replace(node, adds=node.adds + (M(name, LETTERS[arg][0]),))
    if kind == 'item':
        from .terms import enum_numbers
        root, adds = enum_numbers(node)
        names = {n for n, _ in root + adds}
        i = len(names)
        while '%s%d' % (GEN_PREFIX[gen], i) in names:
            i += 1
        name = '%s%d' % (GEN_PREFIX[gen], i)
        if arg == 'next':
            # explicit numbers are kept explicit: an un-numbered addition after a
            # numbered one takes the next free value either way
            num = None
        else:
            num = max(v for _, v in root + adds) + 200
        return replace(node, enum_adds=node.enum_adds + ((name, num),))
    if op == 'widen:int':
        return replace(node, rng=widen(node.rng, gen, INT_CHUNK))
    if op == 'widen:size':
        return replace(node, size=widen(node.size, gen, SIZE_CHUNK))
    raise ValueError(op)


def successors(t, gen, reduced=False, auto=False):
    """All (path, op, term') one extension step away from t.

    auto=True (AUTOMATIC TAGS): a constructor with components after the second
    extension marker gets no component steps -- the order in which automatic
    tags are assigned to root components that follow the additions is a rule
    this model does not assert."""
    out = []
    for path, node in nodes(t):
        if auto and isinstance(node, Seq) and node.root2:
            continue
        for op in ops_at(node, reduced):
            out.append((path, op, rewrite(t, path, lambda n, op=op: apply_op(n, op, gen))))
    return out


def is_extensible(t):
    return any(ops_at(n) for _, n in nodes(t))


# ---------------------------------------------------------------------------
# tags: the older version carries exactly the tags of the newer one

def retag(old, new):
    """old with the context tags that legalisation put on `new` copied onto the
    components both versions share."""
    if isinstance(new, Tag):
        if isinstance(old, Tag):
            return Tag(new.num, retag(old.inner, new.inner), new.cls, new.mode)
        return Tag(new.num, retag(old, new.inner), new.cls, new.mode)
    if isinstance(old, Tag):
        raise ValueError('tag lost')
    if isinstance(old, Of):
        return replace(old, elem=retag(old.elem, new.elem))
    if isinstance(old, (Seq, Cho)):
        byname = {m.name: m for m in all_members(new)}

        def rm(m):
            return replace(m, t=retag(m.t, byname[m.name].t))
        adds = tuple(Grp(tuple(rm(m) for m in a.members)) if isinstance(a, Grp) else rm(a) for a in old.adds)
        kw = dict(root=tuple(rm(m) for m in old.root), adds=adds)
        if isinstance(old, Seq):
            kw['root2'] = tuple(rm(m) for m in old.root2)
        return replace(old, **kw)
    return old


# ---------------------------------------------------------------------------
# the projection pi and equality on version-1 observations

UNKNOWN_CHOICE = (None, None)


def _bare(t):
    while isinstance(t, Tag):
        t = t.inner
    return t


def pi(old, new, v):
    """The version-`old` projection of value v of version `new`: unknown
    additions dropped, unknown alternative -> (None, None), unknown ENUMERATED
    item -> None; everything else (including values outside the root of an
    extensible range or SIZE) kept."""
    old, new = _bare(old), _bare(new)
    if isinstance(old, Leaf):
        if old.kind == 'ENUMERATED':
            known = {n for n, _ in old.enum} | {n for n, _ in (old.enum_adds or ())}
            return v if v in known else None
        return v
    if isinstance(old, Seq):
        newm = {m.name: m for m in all_members(new)}
        return {m.name: pi(m.t, newm[m.name].t, v[m.name]) for m in all_members(old) if m.name in v}
    if isinstance(old, Cho):
        newm = {m.name: m for m in all_members(new)}
        for m in all_members(old):
            if m.name == v[0]:
                return (m.name, pi(m.t, newm[m.name].t, v[1]))
        return UNKNOWN_CHOICE
    if isinstance(old, Of):
        return [pi(old.elem, new.elem, x) for x in v]
    return v


UNK = ('unknown',)
ABS = ('absent',)


def vnorm(t, v):
    """Canonical form of an observation of type t that may contain the
    library's 'unknown' representations: None for an ENUMERATED item, (None, x)
    or None for a CHOICE alternative.  In a mandatory or OPTIONAL component
    'unknown' and 'not reported at all' are the same observation (the property
    says: reported as absent)."""
    t = _bare(t)
    if isinstance(t, Leaf):
        if t.kind == 'ENUMERATED' and v is None:
            return UNK
        return absval.norm(t, v, {})
    if isinstance(t, Seq):
        if not isinstance(v, dict):
            raise ValueError('sequence shape')
        out = []
        names = set()
        for m in all_members(t):
            names.add(m.name)
            if m.name in v:
                x = vnorm(m.t, v[m.name])
                if x == UNK and m.q != 'D':
                    x = ABS
                out.append((m.name, x))
            elif m.q == 'D':
                out.append((m.name, vnorm(m.t, m.default)))
            else:
                out.append((m.name, ABS))
        if set(v) - names:
            raise ValueError('unknown members')
        return ('seq', tuple(out))
    if isinstance(t, Cho):
        if v is None:
            return UNK
        if not (isinstance(v, tuple) and len(v) == 2):
            raise ValueError('choice shape')
        if v[0] is None:
            return UNK
        for m in all_members(t):
            if m.name == v[0]:
                return ('cho', v[0], vnorm(m.t, v[1]))
        raise ValueError('alternative')
    if isinstance(t, Of):
        if not isinstance(v, list):
            raise ValueError('list shape')
        items = [vnorm(t.elem, x) for x in v]
        if t.is_set:
            items = sorted(items, key=repr)
        return ('of', tuple(items))
    raise TypeError(t)


def veq(t, a, b):
    try:
        return vnorm(t, a) == vnorm(t, b)
    except (ValueError, TypeError, KeyError, AttributeError):
        return False


def has_unknown(old, new, v):
    """True when pi(old, new, v) contains an unknown alternative / item."""
    try:
        return 'unknown' in repr(vnorm(old, pi(old, new, v))) or _has_none_choice(pi(old, new, v))
    except Exception:
        return False


def _has_none_choice(v):
    if isinstance(v, tuple) and len(v) == 2 and v[0] is None:
        return True
    if isinstance(v, dict):
        return any(_has_none_choice(x) for x in v.values())
    if isinstance(v, list):
        return any(_has_none_choice(x) for x in v)
    if isinstance(v, tuple) and len(v) == 2 and isinstance(v[0], str):
        return _has_none_choice(v[1])
    return False
