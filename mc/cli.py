"""./check <ID> [--tier quick|thorough] [--seed N] | --replay PATH | --selftest"""

import os
import sys
import argparse


def main(argv=None):
    ap = argparse.ArgumentParser(prog='check')
    ap.add_argument('prop', nargs='?')
    ap.add_argument('--tier', default=None)
    ap.add_argument('--seed', type=int, default=None)
    ap.add_argument('--replay', default=None)
    ap.add_argument('--selftest', action='store_true')
    ap.add_argument('--jobs', type=int, default=None)
    a = ap.parse_args(argv)
    os.environ.setdefault('PYTHONHASHSEED', '0')
    from . import fastarena
    fastarena.install()
    if a.selftest:
        from . import selftest
        return selftest.main()
    if not a.prop:
        ap.error('property id required')
    tier = a.tier or os.environ.get('VERIF_TIER') or 'quick'
    if tier not in ('quick', 'thorough'):
        ap.error('tier must be quick or thorough')
    seed = a.seed if a.seed is not None else int(os.environ.get('VERIF_SEED', '0') or 0)
    from . import runner
    try:
        if a.replay:
            return runner.replay(a.prop.upper(), a.replay)
        return runner.run(a.prop.upper(), tier, seed, a.jobs)
    except SystemExit:
        raise
    except BaseException:
        import traceback
        traceback.print_exc()
        return 2


if __name__ == '__main__':
    sys.exit(main())
