"""python -m mc.consolidate: merge the per-property parts known/cNN.json into the committed list
known_findings.json (kept read-only at run time; the runner reads both and de-duplicates by id, so
the two can never disagree about what is tolerated)."""
import glob
import json
import os

VERIF = os.path.dirname(os.path.dirname(os.path.abspath(__file__)))


def main():
    p = os.path.join(VERIF, 'known_findings.json')
    d = json.load(open(p))
    merged, seen = [], set()
    for f in sorted(glob.glob(os.path.join(VERIF, 'known', '*.json'))):
        part = json.load(open(f))
        for k in part['findings'] if isinstance(part, dict) else part:
            if k['id'] not in seen:
                seen.add(k['id'])
                merged.append(k)
    d['findings'] = merged
    d['note'] = ('findings: genuine defects of asn1tools that are recorded, not repaired; each names a narrow predicate '
                 '(mc/known_preds.py, mc/kp_cNN.py) over the shrunk minimal case; a check prints one KNOWN-FINDING line '
                 'per matched entry and reports everything else as a VIOLATION.  fixed: repaired defects (fix: commits '
                 'in /repo); they suppress nothing.  Source parts: known/cNN.json (python -m mc.consolidate).')
    with open(p, 'w') as f:
        json.dump(d, f, indent=1)
    print('known_findings.json: %d findings, %d fixed' % (len(merged), len(d['fixed'])))


if __name__ == '__main__':
    main()
