"""Frozen calibration vectors for mc/ref_per.py.

Part 1: the worked examples of ITU-T X.691 Annex A.1-A.4 (type definitions
transcribed into the framework's term AST by hand; the octets are those printed
in the standard for the ALIGNED and the UNALIGNED variant — they coincide with
/repo/tests/files/x691_a*.asn and the bytes asserted by test_per/test_uper).

Part 2: vectors harvested once from /repo/tests/test_per.py and test_uper.py
(per_harvested.py, generated at development time by recording
assert_encode_decode calls and converting the parsed types into terms); only
vectors that were checked against the clauses are kept — the ones that pin a
deviation of the implementation are listed in per_harvested.EXCLUDED with the
clause that decides against them.

Nothing here imports asn1tools.
"""

import os
import importlib.util

from mc.terms import Leaf, Seq, Cho, Of, Ref, Tag, M, Grp, Rng, MAX, MIN  # noqa: F401

VS = Leaf('VisibleString')
RECORD = {
    'name': {'givenName': 'John', 'initial': 'P', 'familyName': 'Smith'},
    'title': 'Director',
    'number': 51,
    'dateOfHire': '19710917',
    'nameOfSpouse': {'givenName': 'Mary', 'initial': 'T', 'familyName': 'Smith'},
    'children': [
        {'name': {'givenName': 'Ralph', 'initial': 'T', 'familyName': 'Smith'}, 'dateOfBirth': '19571111'},
        {'name': {'givenName': 'Susan', 'initial': 'B', 'familyName': 'Jones'}, 'dateOfBirth': '19590717'},
    ],
}
LETTERS = 'abcdefghijklmnopqrstuvwxyzABCDEFGHIJKLMNOPQRSTUVWXYZ-.'


def _record(children_member, ext):
    return Tag(0, Seq((M('name', Ref('Name')),
                       M('title', Tag(0, VS)),
                       M('number', Ref('EmployeeNumber')),
                       M('dateOfHire', Tag(1, Ref('Date'))),
                       M('nameOfSpouse', Tag(2, Ref('Name'))),
                       children_member), ext=ext, is_set=True),
               cls='APPLICATION', mode='IMPLICIT')


def annex_a():
    out = []
    # ---- A.1: no subtype constraints -------------------------------------------------
    env = {
        'Name': Tag(1, Seq((M('givenName', VS), M('initial', VS), M('familyName', VS))),
                    cls='APPLICATION', mode='IMPLICIT'),
        'EmployeeNumber': Tag(2, Leaf('INTEGER'), cls='APPLICATION', mode='IMPLICIT'),
        'Date': Tag(3, VS, cls='APPLICATION', mode='IMPLICIT'),
        'ChildInformation': Seq((M('name', Ref('Name')), M('dateOfBirth', Tag(0, Ref('Date')))), is_set=True),
    }
    env['PersonnelRecord'] = _record(
        M('children', Tag(3, Of(Ref('ChildInformation')), mode='IMPLICIT'), 'D', default=[]), False)
    out.append({
        'id': 'X691-A.1', 'source': 'X.691 A.1.2 / A.1.3', 'term': Ref('PersonnelRecord'), 'env': env,
        'tags': 'EXPLICIT', 'value': RECORD,
        'per': '80044a6f686e015005536d6974680133084469726563746f72083139373130393137044d617279015405536d69746802'
               '0552616c7068015405536d69746808313935373131313105537573616e0142054a6f6e6573083139353930373137',
        'uper': '824adfa3700d005a7b74f4d0026611134f2cb8fa6fe410c5cb762c1cb16e09370f2f20350169edd3d340102d2c3b3868'
                '01a80b4f6e9e9a0218b96add8b162c4169f5e787700c20595bf765e610c5cb572c1bb16e',
    })
    # ---- A.2: subtype constraints ----------------------------------------------------
    ns = Leaf('VisibleString', alpha=LETTERS, size=Rng(1, 64))
    ns1 = Leaf('VisibleString', alpha=LETTERS, size=Rng(1, 1, single=True))
    env = {
        'Name': Tag(1, Seq((M('givenName', ns), M('initial', ns1), M('familyName', ns))),
                    cls='APPLICATION', mode='IMPLICIT'),
        'EmployeeNumber': Tag(2, Leaf('INTEGER'), cls='APPLICATION', mode='IMPLICIT'),
        'Date': Tag(3, Leaf('VisibleString', alpha='0123456789', size=Rng(8, 8, single=True)),
                    cls='APPLICATION', mode='IMPLICIT'),
        'ChildInformation': Seq((M('name', Ref('Name')), M('dateOfBirth', Tag(0, Ref('Date')))), is_set=True),
    }
    env['PersonnelRecord'] = _record(
        M('children', Tag(3, Of(Ref('ChildInformation')), mode='IMPLICIT'), 'D', default=[]), False)
    out.append({
        'id': 'X691-A.2', 'source': 'X.691 A.2.2 / A.2.3', 'term': Ref('PersonnelRecord'), 'env': env,
        'tags': 'EXPLICIT', 'value': RECORD,
        'per': '864a6f686e5010536d6974680133084469726563746f72197109170c4d6172795410536d697468021052616c70685410'
               '536d6974681957111110537573616e42104a6f6e657319590717',
        'uper': '865d51d2888a5125f180998444d3cb2e3e9bf90cb8848b867396e8a88a5125f181089b93d71aa2294497c632ae222222'
                '985ce521885d54c170cac838b8',
    })
    # ---- A.3: extension markers ------------------------------------------------------
    ns = Leaf('VisibleString', alpha=LETTERS, size=Rng(1, 64, ext=True))
    ns1 = Leaf('VisibleString', alpha=LETTERS, size=Rng(1, 1, single=True))
    env = {
        'Name': Tag(1, Seq((M('givenName', ns), M('initial', ns1), M('familyName', ns)), ext=True),
                    cls='APPLICATION', mode='IMPLICIT'),
        'EmployeeNumber': Tag(2, Leaf('INTEGER', rng=Rng(0, 9999, ext=True)), cls='APPLICATION', mode='IMPLICIT'),
        'Date': Tag(3, Leaf('VisibleString', alpha='0123456789', size=Rng(8, 8, ext=True, single=True)),
                    cls='APPLICATION', mode='IMPLICIT'),
        'ChildInformation': Seq((M('name', Ref('Name')), M('dateOfBirth', Tag(0, Ref('Date')))), ext=True,
                                adds=(M('sex', Tag(1, Leaf('ENUMERATED', enum=(('male', 1), ('female', 2), ('unknown', 3))),
                                                   mode='IMPLICIT'), 'O'),), is_set=True),
    }
    env['PersonnelRecord'] = _record(
        M('children', Tag(3, Of(Ref('ChildInformation'), size=Rng(2, 2, ext=True, single=True)), mode='IMPLICIT'), 'O'),
        True)
    rec = dict(RECORD)
    rec['children'] = [dict(RECORD['children'][0]), dict(RECORD['children'][1], sex='female')]
    out.append({
        'id': 'X691-A.3', 'source': 'X.691 A.3.2 / A.3.3', 'term': Ref('PersonnelRecord'), 'env': env,
        'tags': 'EXPLICIT', 'value': rec,
        'per': '40c04a6f686e5008536d697468000033084469726563746f720019710917034d6172795408536d697468010052616c70'
               '685408536d69746800195711118200537573616e42084a6f6e65730019590717010140',
        'uper': '40cbaa3a5108a5125f180330889a7965c7d37f20cb8848b819ce5ba2a114a24be30113727ae3542294497c6195711118'
                '22985ce521842eaa60b832b20e2e020280',
    })
    # ---- A.4: extension addition groups ---------------------------------------------
    ax = Seq((M('a', Leaf('INTEGER', rng=Rng(250, 253))),
              M('b', Leaf('BOOLEAN')),
              M('c', Cho((M('d', Leaf('INTEGER')),), ext=True,
                         adds=(Grp((M('e', Leaf('BOOLEAN')), M('f', Leaf('IA5String')))),)))),
             ext=True,
             adds=(Grp((M('g', Leaf('NumericString', size=Rng(3, 3, single=True))), M('h', Leaf('BOOLEAN'), 'O'))),),
             root2=(M('i', Leaf('BMPString'), 'O'), M('j', Leaf('PrintableString'), 'O')))
    out.append({
        'id': 'X691-A.4', 'source': 'X.691 A.4.2 / A.4.3', 'term': ax, 'env': {}, 'tags': 'AUTOMATIC',
        'value': {'a': 253, 'b': True, 'c': ('e', True), 'g': '123', 'h': True},
        'per': '9e000180010291a4', 'uper': '9e000600040a4690',
    })
    return out


def harvested():
    p = os.path.join(os.path.dirname(os.path.abspath(__file__)), 'per_harvested.py')
    if not os.path.exists(p):
        return []
    spec = importlib.util.spec_from_file_location('mc_vectors_per_harvested', p)
    mod = importlib.util.module_from_spec(spec)
    spec.loader.exec_module(mod)
    return mod.vectors()


def vectors():
    return annex_a() + harvested()
