"""Frozen OER calibration vectors for mc.ref_oer.selftest().

Sources
  overview  - the worked examples of the "Overview of OER" paper (types A, B, C of
              tests/files/overview_of_oer.asn; these are the publicly documented
              worked examples of X.696 encodings)
  repo      - (type, value, octets) triples asserted by /repo/tests/test_oer.py at the
              time of writing, transcribed BY HAND into the framework's own term AST
              and each checked against the clause of X.696 named in mc.ref_oer.LEDGER.
              They are a calibration aid, not an oracle.
  intended  - the vector tests/test_oer.py::test_choice_default_tags states as the
              intended result (the implementation raises TypeError there today).

PINNED_DEFECTS are repository vectors that pin behaviour contradicting X.696 (the
model must produce `hex`, not `repo_hex`).

Nothing here is read at check time except by the self test.
"""

import datetime
from ..terms import Leaf, Rng, Seq, Cho, Of, Ref, Tag, M, Grp, MIN, MAX

R = Rng
B = Leaf('BOOLEAN')
I = Leaf('INTEGER')
NUL = Leaf('NULL')


def S(n, **kw):
    return R(n, n, single=True, **kw)


def _enum(*items, adds=None):
    return Leaf('ENUMERATED', enum=tuple(items), enum_adds=adds)


VECTORS = []


def v(id_, term, value, hex_, **kw):
    d = dict(id=id_, term=term, value=value, hex=hex_.replace(' ', ''))
    d.update(kw)
    VECTORS.append(d)


# --- test_boolean / test_null ------------------------------------------------------
v('repo-bool-true', B, True, 'ff')
v('repo-bool-false', B, False, '00')
v('repo-null', NUL, None, '')

# --- test_integer ---------------------------------------------------------------------
_IB = Leaf('INTEGER', rng=R(-128, 127))
_IC = Leaf('INTEGER', rng=R(-32768, 32767))
_ID = Leaf('INTEGER', rng=R(-2147483648, 2147483647))
_IE = Leaf('INTEGER', rng=R(-9223372036854775808, 9223372036854775807))
_IF = Leaf('INTEGER', rng=R(0, 255))
_IG = Leaf('INTEGER', rng=R(0, 65535))
_IH = Leaf('INTEGER', rng=R(0, 4294967295))
_II = Leaf('INTEGER', rng=R(0, 18446744073709551615))
_IJ = Leaf('INTEGER', rng=R(0, 18446744073709551616))
_IK = Leaf('INTEGER', rng=R(1, MAX))
_IL = Leaf('INTEGER', rng=R(MIN, 0))
for i, (t, val, hx) in enumerate([
        (I, 0, '0100'), (I, 128, '020080'), (I, 100000, '030186a0'), (I, -255, '02ff01'),
        (I, -1234567, '03ed2979'), (_IB, -2, 'fe'), (_IC, -2, 'fffe'), (_ID, -2, 'fffffffe'),
        (_IE, -2, 'fffffffffffffffe'), (_IF, 128, '80'), (_IG, 128, '0080'), (_IG, 1000, '03e8'),
        (_IH, 128, '00000080'), (_II, 128, '0000000000000080'), (_IB, 1, '01'), (_IC, 1, '0001'),
        (_ID, 1, '00000001'), (_IE, 1, '0000000000000001'), (_IB, 127, '7f'), (_IC, 127, '007f'),
        (_ID, 127, '0000007f'), (_IE, 127, '000000000000007f'), (_II, 1, '0000000000000001'),
        (_IJ, 1, '0101'), (_IK, 1, '0101'), (_IK, 127, '017f'), (_IK, 128, '0180'), (_IL, -128, '0180')]):
    v('repo-int-%d' % i, t, val, hx)

# --- test_real --------------------------------------------------------------------------
_R32 = Leaf('REAL', wc='binary32')
_R64 = Leaf('REAL', wc='binary64')
for i, (t, val, hx) in enumerate([
        (Leaf('REAL'), 0.0, '00'), (Leaf('REAL'), 1.0, '03800001'), (Leaf('REAL'), 100.0, '03800219'),
        (Leaf('REAL'), -100.0, '03c00219'),
        (_R32, 0.0, '00000000'), (_R32, 1.0, '3f800000'), (_R32, 2.0 ** -126, '00800000'),
        (_R32, (1 - 2.0 ** -24) * 2.0 ** 128, '7f7fffff'),
        (_R64, 0.0, '0000000000000000'), (_R64, 1.0, '3ff0000000000000'), (_R64, 2.0 ** -1022, '0010000000000000'),
        (_R64, (2 - 2.0 ** -52) * 2.0 ** 1023, '7fefffffffffffff')]):
    v('repo-real-%d' % i, t, val, hx)

# --- test_bit_string / test_octet_string / test_object_identifier -----------------------
v('repo-bits-a4', Leaf('BITSTRING'), (b'\x40', 4), '020440')
v('repo-bits-a8', Leaf('BITSTRING'), (b'\x41', 8), '020041')
v('repo-bits-fixed9', Leaf('BITSTRING', size=S(9)), (b'\x12\x80', 9), '1280')
v('repo-bits-ext9', Leaf('BITSTRING', size=S(9, ext=True)), (b'\x12\x80', 9), '03071280')
v('repo-bits-range', Leaf('BITSTRING', size=R(5, 7)), (b'\x34', 6), '020234')
v('repo-octets-a', Leaf('OCTETSTRING'), b'\x12\x34', '021234')
v('repo-octets-999', Leaf('OCTETSTRING'), 999 * b'\x01', '8203e7' + 999 * '01')
v('repo-octets-fixed3', Leaf('OCTETSTRING', size=S(3)), b'\x12\x34\x56', '123456')
v('repo-octets-ext3', Leaf('OCTETSTRING', size=S(3, ext=True)), b'\x12\x34\x56', '03123456')
v('repo-octets-range', Leaf('OCTETSTRING', size=R(3, 7)), b'\x12\x34\x56', '03123456')
v('repo-oid-1.2', Leaf('OID'), '1.2', '012a')
v('repo-oid-1.2.3321', Leaf('OID'), '1.2.3321', '032a9979')

# --- test_enumerated -----------------------------------------------------------------------
_EF = _enum(('a', -16777216), ('b', -8388608), ('c', -65536), ('d', -32768), ('e', -128))
for i, (t, val, hx) in enumerate([
        (_enum(('a', 1)), 'a', '01'), (_enum(('a', 128)), 'a', '820080'),
        (_enum(('a', 0), ('b', 127)), 'a', '00'), (_enum(('a', 0), ('b', 127)), 'b', '7f'),
        (_enum(('a', 0), adds=(('b', 127),)), 'a', '00'), (_enum(('a', 0), adds=(('b', 127),)), 'b', '7f'),
        (_enum(('a', -1), ('b', 1234)), 'a', '81ff'), (_enum(('a', -1), ('b', 1234)), 'b', '8204d2'),
        (_EF, 'a', '84ff000000'), (_EF, 'b', '83800000'), (_EF, 'c', '83ff0000'), (_EF, 'd', '828000'),
        (_EF, 'e', '8180')]):
    v('repo-enum-%d' % i, t, val, hx)

# --- test_sequence ----------------------------------------------------------------------------
_SD = Seq((M('a', B),), ext=True)
_SE = Seq((M('a', B),), ext=True, adds=(M('b', B), M('c', B)))
_SF = Seq((M('a', B),), ext=True, adds=(Grp((M('b', B),)),))
_SG = Seq((M('a', B),), ext=True, adds=(M('b', B, 'O'),))
_SB = Seq((M('a', I, 'D', default=0),))
_SO = Seq((M('a', B),), ext=True, adds=(M('b', NUL),))
_ENV_H = {'H': Seq((M('a', Ref('H'), 'O'),))}
v('repo-seq-empty', Seq(()), {}, '')
v('repo-seq-default-absent', _SB, {'a': 0}, '00')
v('repo-seq-default-present', _SB, {'a': 1}, '800101')
v('repo-seq-c', Seq((M('a', B),)), {'a': True}, 'ff')
v('repo-seq-d', _SD, {'a': True}, '00ff')
v('repo-seq-e-root', _SE, {'a': True}, '00ff')
v('repo-seq-e-adds', _SE, {'a': True, 'b': True, 'c': True}, '80ff0206c001ff01ff')
v('repo-seq-f-root', _SF, {'a': True}, '00ff')
v('repo-seq-f-group', _SF, {'a': True, 'b': True}, '80ff02078001ff')
v('repo-seq-g-root', _SG, {'a': True}, '00ff')
v('repo-seq-g-add', _SG, {'a': True, 'b': True}, '80ff02078001ff')
v('repo-seq-h-empty', Ref('H'), {}, '00', env=_ENV_H)
v('repo-seq-h-nested', Ref('H'), {'a': {}}, '8000', env=_ENV_H)
v('repo-seq-n', Seq((M('a', _SE), M('b', I))), {'a': {'a': True, 'b': True}, 'b': 5}, '80ff02068001ff0105')
v('repo-seq-o-null-addition', _SO, {'a': True, 'b': None}, '80ff02078000')

# --- test_set: canonical order APPLICATION 5 < [5] < [444] --------------------------------------
v('repo-set-order', Seq((M('a', Tag(444, I)), M('b', Tag(5, I)), M('c', Tag(5, I, cls='APPLICATION'))), is_set=True),
  {'a': 5, 'b': 6, 'c': 7}, '010701060105')

# --- test_sequence_of ---------------------------------------------------------------------------
v('repo-of-empty', Of(I), [], '0100')
v('repo-of-two', Of(I), [1, 2], '010201010102')
v('repo-of-1000', Of(I), 1000 * [0], '0203e8' + 1000 * '0100')
v('repo-of-129', Of(I, size=S(129)), 129 * [2], '0181' + 129 * '0102')

# --- test_choice ------------------------------------------------------------------------------------
_CB = Cho((M('a', B),), ext=True, adds=(M('b', B), M('c', I)))
_CD = Cho((M('a', Tag(62, B)), M('b', Tag(63, B, cls='APPLICATION')), M('c', Tag(963, B, cls='PRIVATE'))))
v('repo-choice-a', Cho((M('a', B),)), ('a', True), '80ff')
v('repo-choice-b-root', _CB, ('a', True), '80ff')
v('repo-choice-b-ext-b', _CB, ('b', True), '8101ff')
v('repo-choice-b-ext-c0', _CB, ('c', 0), '82020100')
v('repo-choice-b-ext-c1000', _CB, ('c', 1000), '82030203e8')
v('repo-choice-nested-tagged', Cho((M('a', Cho((M('a', Tag(3, I)),))),)), ('a', ('a', 150)), '8083020096')
v('repo-choice-tag-62', _CD, ('a', False), 'be00')
v('repo-choice-tag-app-63', _CD, ('b', False), '7f3f00')
v('repo-choice-tag-priv-963', _CD, ('c', False), 'ff874300')
v('intended-choice-untagged-nested', Cho((M('a', Cho((M('aa', I),))),)), ('a', ('aa', 1)), '02020101', tags='EXPLICIT')

# --- strings ------------------------------------------------------------------------------------------
v('repo-utf8-a', Leaf('UTF8String'), 'foo', '03666f6f')
v('repo-utf8-ext', Leaf('UTF8String', size=S(3, ext=True)), 'foo', '03666f6f')
v('repo-utf8-range', Leaf('UTF8String', size=R(3, 7)), 'foo', '03666f6f')
for kind, txt in (('NumericString', '123'), ('PrintableString', 'foo'), ('IA5String', 'foo'), ('VisibleString', 'foo')):
    hx = txt.encode().hex()
    v('repo-%s-a' % kind, Leaf(kind), txt, '03' + hx)
    v('repo-%s-fixed' % kind, Leaf(kind, size=S(3)), txt, hx)
    v('repo-%s-ext' % kind, Leaf(kind, size=S(3, ext=True)), txt, '03' + hx)
    v('repo-%s-range' % kind, Leaf(kind, size=R(3, 7)), txt, '03' + hx)
v('repo-general-empty', Leaf('GeneralString'), '', '00')
v('repo-general-2', Leaf('GeneralString'), '2', '0132')
v('repo-general-in-seq', Seq((M('a', B), M('b', Leaf('GeneralString')))), {'a': False, 'b': 'K'}, '00014b')
v('repo-graphic-empty', Leaf('GraphicString'), '', '00')
v('repo-graphic-2', Leaf('GraphicString'), '2', '0132')
v('repo-teletex', Leaf('TeletexString'), '123', '03313233')
v('repo-universal-latin', Leaf('UniversalString'), '\xe5\xe4\xf6', '0c000000e5000000e4000000f6')
v('repo-universal-astral', Leaf('UniversalString'), '1\U00010203Q', '0c000000310001020300000051')

# --- times -----------------------------------------------------------------------------------------------
v('repo-utctime', Leaf('UTCTime'), datetime.datetime(2043, 1, 31, 23, 59, 59), '0d3433303133313233353935395a',
  tags='IMPLICIT')
v('repo-generalizedtime', Leaf('GeneralizedTime'), datetime.datetime(2080, 10, 9, 13, 0, 5, 342000),
  '1232303830313030393133303030352e333432')

# --- overview of OER worked examples ----------------------------------------------------------------------
v('overview-A', Seq((M('a1', Leaf('INTEGER', rng=R(0, 100))), M('a2', Leaf('INTEGER', rng=R(-290, 399))),
                     M('a3', Leaf('INTEGER', rng=R(0, 60000)), 'O'),
                     M('a4', Leaf('INTEGER', rng=R(-5000000, 5000000))),
                     M('a5', Leaf('INTEGER', rng=R(1000, MAX))), M('a6', Leaf('INTEGER', rng=R(-1, MAX))),
                     M('a7', I, 'O'))),
  {'a1': 4, 'a2': 4, 'a3': 4, 'a4': 4, 'a5': 1024, 'a6': 4, 'a7': 4},
  'c0 04 0004 0004 00000004 02 0400 01 04 01 04')
v('overview-B', Seq((M('b1', Leaf('IA5String', size=R(0, 10))), M('b2', Leaf('IA5String', size=S(3))),
                     M('b3', Leaf('IA5String')), M('b4', Leaf('OCTETSTRING')),
                     M('b5', Leaf('BITSTRING', size=S(4))), M('b6', Leaf('BITSTRING')))),
  {'b1': 'ABC', 'b2': 'ABC', 'b3': 'ABC', 'b4': b'\x01\x02\x03\x04', 'b5': (b'\x50', 4), 'b6': (b'\x50', 4)},
  '03 414243 414243 03 414243 04 01020304 50 02 04 50')
v('overview-C', Cho((M('c1', B), M('c2', Of(_enum(('a', None), ('b', None), ('c', None), ('d', None), ('e', None)))))),
  ('c2', ['b', 'c', 'd', 'e']), '81 01 04 01 02 03 04')

# --- X.691 A.1 personnel record, encoded in OER (repository vector; exercises SET order with
#     APPLICATION / context / universal tags under EXPLICIT TAGS, DEFAULT, nested SET) -------------------------
_VS = Leaf('VisibleString')
_ENV_A1 = {
    'Name': Tag(1, Seq((M('givenName', _VS), M('initial', _VS), M('familyName', _VS))), cls='APPLICATION', mode='IMPLICIT'),
    'EmployeeNumber': Tag(2, I, cls='APPLICATION', mode='IMPLICIT'),
    'Date': Tag(3, _VS, cls='APPLICATION', mode='IMPLICIT'),
    'ChildInformation': Seq((M('name', Ref('Name')), M('dateOfBirth', Tag(0, Ref('Date')))), is_set=True),
}
_PR = Tag(0, Seq((M('name', Ref('Name')), M('title', Tag(0, _VS)), M('number', Ref('EmployeeNumber')),
                  M('dateOfHire', Tag(1, Ref('Date'))), M('nameOfSpouse', Tag(2, Ref('Name'))),
                  M('children', Tag(3, Of(Ref('ChildInformation')), mode='IMPLICIT'), 'D', default=[])),
                 is_set=True), cls='APPLICATION', mode='IMPLICIT')
_john = {'givenName': 'John', 'initial': 'P', 'familyName': 'Smith'}
_mary = {'givenName': 'Mary', 'initial': 'T', 'familyName': 'Smith'}
_ralph = {'givenName': 'Ralph', 'initial': 'T', 'familyName': 'Smith'}
_susan = {'givenName': 'Susan', 'initial': 'B', 'familyName': 'Jones'}
v('repo-x691-a1', _PR,
  {'name': _john, 'title': 'Director', 'number': 51, 'dateOfHire': '19710917', 'nameOfSpouse': _mary,
   'children': [{'name': _ralph, 'dateOfBirth': '19571111'}, {'name': _susan, 'dateOfBirth': '19590717'}]},
  '80044a6f686e0150 05536d697468 0133 084469726563746f72 083139373130393137 044d617279 0154 05536d697468 0102'
  '0552616c7068 0154 05536d697468 083139353731313131 05537573616e 0142 054a6f6e6573 083139353930373137',
  env=_ENV_A1, tags='EXPLICIT')

# --- repository vectors that pin a deviation from X.696 ---------------------------------------------------------
PINNED_DEFECTS = [
    # UTF8String is not a known-multiplier type: SIZE (in characters) is not OER-visible, a length is required
    dict(id='repo-utf8-fixed3', term=Leaf('UTF8String', size=S(3)), value='foo', repo_hex='666f6f', hex='03666f6f'),
]
