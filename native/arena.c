/* Arena allocator shim for CPython 3.12: the interpreter's frame data stack
 * allocates and frees a 16 KiB chunk with mmap/munmap every time the call depth
 * crosses a chunk boundary, which costs two syscalls per crossing and scales
 * badly with 16 worker processes in this VM.  This shim serves arena requests
 * from malloc and keeps a small cache of freed chunks.  It changes nothing
 * about what the checks compute. */
#include <stdlib.h>
#include <string.h>

#define CACHE 64
static void *cache16k[CACHE];
static int ncache = 0;

static void *arena_alloc(void *ctx, size_t size)
{
    (void)ctx;
    if (size == 16384 && ncache > 0) {
        return cache16k[--ncache];
    }
    void *p = NULL;
    if (posix_memalign(&p, 4096, size) != 0) {
        return NULL;
    }
    return p;
}

static void arena_free(void *ctx, void *ptr, size_t size)
{
    (void)ctx;
    if (size == 16384 && ncache < CACHE) {
        cache16k[ncache++] = ptr;
        return;
    }
    /* Never handed back: the block may predate this allocator (mmap) and the
     * processes are short-lived. */
    (void)ptr;
}

typedef struct {
    void *ctx;
    void *(*alloc)(void *ctx, size_t size);
    void (*free)(void *ctx, void *ptr, size_t size);
} PyObjectArenaAllocator;

extern void PyObject_SetArenaAllocator(PyObjectArenaAllocator *allocator);

int verif_install_arena(void)
{
    static PyObjectArenaAllocator a;
    a.ctx = NULL;
    a.alloc = arena_alloc;
    a.free = arena_free;
    PyObject_SetArenaAllocator(&a);
    return 0;
}
